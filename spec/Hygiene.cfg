INIT Init
NEXT Next
INVARIANTS C19_NamesAreIrrelevant
POSTCONDITION Emit
CHECK_DEADLOCK FALSE
