CONSTANTS
  MaxM = 2
  Stride = 8
SPECIFICATION FairSpec
PROPERTIES Dispatched
CHECK_DEADLOCK FALSE
