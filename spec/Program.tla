------------------------------ MODULE Program ------------------------------
(***************************************************************************)
(* Static semantics of the contract / interface macros: what a program     *)
(* (an annotated impl block plus the interfaces it lists) means.           *)
(*                                                                         *)
(* A program is a record                                                   *)
(*   [id, parts, overrides, replies, ...]                                  *)
(* `parts` lists the interfaces in `sv::messages` order followed by the    *)
(* contract's own impl block (id "own") -- the order in which the          *)
(* contract-level message tries its parts.                                 *)
(* A method is [name (chars), kind, args (seq of [n, t]), outcome, ...].   *)
(***************************************************************************)
EXTENDS Casing, TLC, Functions

Kinds     == {"instantiate", "exec", "query", "sudo", "migrate", "reply"}
EnumKinds == {"exec", "query", "sudo"}
EpOf(k)   == IF k = "exec" THEN "execute" ELSE k       \* entry point name of a kind


(* ---- methods and parts ------------------------------------------------ *)
MethodsOf(part, k) == SelectSeq(part.methods, LAMBDA m : m.kind = k)
(* A handler may carry serde attributes forwarded to its variant (`#[sv::attr(serde(..))]`, C17: they take effect there):  *)
(*   wname    `rename = ".."`: the name the message is written and read under, instead of the one derived from the method *)
(*   aliases  `alias = ".."`: further names the message is read under                                                     *)
(* (fields present only on the methods that carry such attributes)                                                        *)
(*   wser     `rename(serialize = "..")`: the name the message is *written* under only; it is still read under its other names   *)
WName(m) == IF "wname" \in DOMAIN m THEN m.wname ELSE Wire(m.name)
SerName(m) == IF "wser" \in DOMAIN m THEN m.wser ELSE WName(m)        \* the name the message serialises under
Aliases(m) == IF "aliases" \in DOMAIN m THEN m.aliases ELSE <<>>
AcceptC(m) == {WName(m)} \cup Range(Aliases(m))           \* every name the part's decoder takes for this message
(* the names under which a part exposes messages of kind k *)
WireNames(part, k) == {Str(n) : n \in UNION {AcceptC(m) : m \in Range(MethodsOf(part, k))}}

(* the method of `part` that a message named `key` of kind k is generated from *)
OwnersIn(part, k, key) == {m \in Range(MethodsOf(part, k)) : key \in {Str(n) : n \in AcceptC(m)}}

(* the list each part publishes (`<ep>_messages()`): the names its messages *serialise* under, sorted in byte order, duplicate free *)
NameListC(part, k) == SetToSortSeq({SerName(m) : m \in Range(MethodsOf(part, k))}, NameLess)
NameList(part, k)  == [i \in 1..Len(NameListC(part, k)) |-> Str(NameListC(part, k)[i])]

(* rustc, not sylvia, rejects two variants of one enum with the same identifier:    *)
(* such a text is not a program of the input space                                  *)
EnumWellFormed(part, k) ==
    \A i, j \in 1..Len(MethodsOf(part, k)) :
        i # j => Variant(MethodsOf(part, k)[i].name) # Variant(MethodsOf(part, k)[j].name)
MethodNamesDistinct(part) ==
    \A i, j \in 1..Len(part.methods) : i # j => part.methods[i].name # part.methods[j].name
WellFormedProg(p) ==
    /\ \A i \in 1..Len(p.parts) : MethodNamesDistinct(p.parts[i]) /\ \A k \in EnumKinds : EnumWellFormed(p.parts[i], k)
    /\ p.parts[Len(p.parts)].id = "own"
    /\ \A i, j \in 1..Len(p.parts) : i # j => p.parts[i].id # p.parts[j].id

(* ---- collisions (C05) -------------------------------------------------- *)
Collides(p, k) ==
    \E i, j \in 1..Len(p.parts) : i # j /\ WireNames(p.parts[i], k) \cap WireNames(p.parts[j], k) # {}
CollidesAny(p) == \E k \in EnumKinds : Collides(p, k)

(* ---- documented structural rules (C18, routing-relevant subset) -------- *)
Own(p) == p.parts[Len(p.parts)]
CountKind(part, k) == Len(MethodsOf(part, k))
ValidStructure(p) ==
    /\ CountKind(Own(p), "instantiate") = 1
    /\ CountKind(Own(p), "migrate") <= 1
    /\ \A i \in 1..(Len(p.parts) - 1) :
          CountKind(p.parts[i], "instantiate") = 0 /\ CountKind(p.parts[i], "migrate") = 0

Accepted(p) == WellFormedProg(p) /\ ValidStructure(p) /\ ~CollidesAny(p)

(* ---- entry points (C06) ------------------------------------------------ *)
HasKind(p, k) == CountKind(Own(p), k) > 0
EntryPointKinds(p) ==
    ({"instantiate", "exec", "query", "sudo"}
        \cup (IF HasKind(p, "migrate") THEN {"migrate"} ELSE {})
        \cup (IF HasKind(p, "reply") THEN {"reply"} ELSE {}))
    \ p.overrides
EntryPoints(p) == {EpOf(k) : k \in EntryPointKinds(p)}

(* ---- elaboration: the name tables the macros generate ------------------ *)
(* An elaborated program carries, per method, the variant identifier and the   *)
(* wire name, and per part the published (sorted) name list of each enum kind. *)
(* The run-time machine (Runtime.tla) works on elaborated programs only.       *)
(* a number that depends on the name only: choices made per handler (which value, which malformed bodies)  *)
(* are derived from it, so that they do not depend on the order of declarations                          *)
CharCode(c) == CASE c = "a" -> 1 [] c = "b" -> 2 [] c = "1" -> 3 [] c = "_" -> 4 [] c = "o" -> 2 [] c = "r" -> 1 [] OTHER -> 5
RECURSIVE NameHashFrom(_, _)
NameHashFrom(n, i) == IF i > Len(n) THEN 0 ELSE CharCode(n[i]) * i + NameHashFrom(n, i + 1)
NameHash(n) == NameHashFrom(n, 1)

ElabMethod(m, code) ==
    [name |-> Str(m.name), name_c |-> m.name, kind |-> m.kind, args |-> m.args, outcome |-> m.outcome,
     code |-> code, h |-> NameHash(m.name), variant |-> Str(Variant(m.name)), wire |-> Str(WName(m)), ser |-> Str(SerName(m)),
     aliases |-> [i \in 1..Len(Aliases(m)) |-> Str(Aliases(m)[i])], renamed |-> "wname" \in DOMAIN m,
     \* an attribute forwarded from the handler to its variant that does not concern the wire format (a name for the *schema*, say)
     hattr |-> IF "hattr" \in DOMAIN m THEN m.hattr ELSE "",
     near |-> Str(Near(m.name)), shape_name |-> IsShapeName(m.name), ctxkind |-> m.ctxkind, resp |-> m.resp, explicit |-> m.explicit, sig |-> m.sig, ret |-> m.ret]
ElabPart(part, base) ==
    [id |-> part.id,
     \* attributes forwarded to the message types of this part (`#[sv::msg_attr(kind, ..)]`): they land on the type and leave the names alone
     mattrs |-> IF "mattrs" \in DOMAIN part THEN part.mattrs ELSE <<>>,
     methods |-> [j \in 1..Len(part.methods) |-> ElabMethod(part.methods[j], base + j)],
     lists |-> [exec |-> NameList(part, "exec"), query |-> NameList(part, "query"), sudo |-> NameList(part, "sudo")]]
Elab(p) ==
    [id |-> p.id, family |-> p.family, overrides |-> SetToSeq(p.overrides),
     \* a generic contract that is only defined: no entry points, nothing in the crate instantiates its messages with concrete types
     generic |-> ("generic" \in DOMAIN p /\ p.generic), define_only |-> ("define_only" \in DOMAIN p /\ p.define_only),
     accepted |-> Accepted(p),
     collides |-> [exec |-> Collides(p, "exec"), query |-> Collides(p, "query"), sudo |-> Collides(p, "sudo")],
     ep_kinds |-> SetToSeq(EntryPointKinds(p)),
     entry_points |-> SetToSeq(EntryPoints(p)),
     parts |-> [i \in 1..Len(p.parts) |-> ElabPart(p.parts[i], 100 * i)]]

(* operators on elaborated programs *)
EMethodsOf(part, k) == SelectSeq(part.methods, LAMBDA m : m.kind = k)
EAccept(m) == {m.wire} \cup Range(m.aliases)
EWireNames(part, k) == UNION {EAccept(m) : m \in Range(EMethodsOf(part, k))}       \* names the part's decoder answers to
EOwnersIn(part, k, key) == {m \in Range(EMethodsOf(part, k)) : key \in EAccept(m)}
EListed(part, k, key) == \E x \in 1..Len(part.lists[k]) : part.lists[k][x] = key
EAllMethods(q) == UNION {Range(q.parts[i].methods) : i \in 1..Len(q.parts)}
EWireUniverse(q) == UNION {EAccept(m) : m \in {x \in EAllMethods(q) : x.kind \in EnumKinds}}
EArgUniverse(q) == UNION {{m.args[i].n : i \in 1..Len(m.args)} : m \in EAllMethods(q)}

(* ---- query response metadata (C16) -------------------------------------- *)
(* the table exported for schema generation: wire name of each query -> declared response type *)
(* (a response type "GenT" is the type a generic contract is used with: the table is that of one instantiation) *)
InstResp(r, inst) == IF r = "GenT" THEN inst ELSE r
EResponsesAt(part, inst) == {<<m.wire, InstResp(m.resp, inst)>> : m \in Range(EMethodsOf(part, "query"))}
EContractResponsesAt(q, inst) == UNION {EResponsesAt(q.parts[i], inst) : i \in 1..Len(q.parts)}
EResponses(part) == EResponsesAt(part, "GenVal")
EContractResponses(q) == EContractResponsesAt(q, "GenVal")

(* ---- the JSON encoding of the value an echo query handler returns, per declared response type ---- *)
(* (tagged JSON values, DESIGN 5.3; m: an elaborated method) *)
QObj(m, b) == [t |-> "o", f |-> << [k |-> "h", v |-> [t |-> "s", v |-> m.name]],
                                   [k |-> "code", v |-> [t |-> "n", v |-> ToString(m.code)]] >>
                                \o (IF b THEN << [k |-> "extra", v |-> [t |-> "b", v |-> "true"]] >> ELSE <<>>)]
JArr(es) == [t |-> "a", e |-> es]
JNum(n) == [t |-> "n", v |-> ToString(n)]
QRespJson(m) ==      \* the JSON encoding of the value the echo query handler returns (its declared response type)
    CASE m.ret = "QRespB"  -> QObj(m, TRUE)
      [] m.ret = "Tup1"    -> JArr(<<QObj(m, FALSE)>>)                      \* (QResp,)
      [] m.ret = "Tup2"    -> JArr(<<QObj(m, FALSE), JNum(m.code)>>)        \* (QResp, u64)
      [] m.ret = "VecTup1" -> JArr(<<JArr(<<JNum(m.code)>>)>>)              \* Vec<(u64,)> with one element
      [] m.ret = "ArrB"    -> JArr(<<QObj(m, TRUE), QObj(m, TRUE)>>)        \* [QRespB; 2]
      [] m.ret = "Bin"     -> [t |-> "s", v |-> "Ymlu"]                     \* Binary holding the bytes "bin": a JSON string in base64
      [] m.ret = "Str"     -> [t |-> "s", v |-> m.name]                     \* String holding the handler's name
      [] m.ret = "GenT"    -> [t |-> "o", f |-> << [k |-> "g", v |-> JNum(m.code)] >>]      \* the type the generic contract is used with
      [] OTHER             -> QObj(m, FALSE)

(* ---- JSON shape of messages (C01) -------------------------------------- *)
(* tagged JSON values (DESIGN 5.3): objects are [t |-> "o", f |-> <<[k, v], ...>>] *)
IsObj(j)   == "t" \in DOMAIN j /\ j.t = "o"
ObjKeys(j) == [i \in 1..Len(j.f) |-> j.f[i].k]
ObjKeySet(j) == {j.f[i].k : i \in 1..Len(j.f)}
ObjGet(j, key) == (CHOOSE i \in 1..Len(j.f) : j.f[i].k = key)
NoDupKeys(j) == \A a, b \in 1..Len(j.f) : a # b => j.f[a].k # j.f[b].k
(* an object with exactly the members `names`, member names[i] holding vals[i] *)
IsObjOf(j, names, vals) ==
    /\ IsObj(j)
    /\ NoDupKeys(j)
    /\ Len(j.f) = Len(names)
    /\ \A i \in 1..Len(names) :
          \E x \in 1..Len(j.f) : j.f[x].k = names[i] /\ j.f[x].v = vals[i]

ArgNames(m) == [i \in 1..Len(m.args) |-> m.args[i].n]

(* the JSON of the message generated from method m with the given encoded argument values *)
IsMsgJson(j, m, argvals) ==
    IF m.kind \in EnumKinds
    THEN /\ IsObj(j) /\ Len(j.f) = 1
         /\ j.f[1].k = Str(SerName(m))
         /\ IsObjOf(j.f[1].v, ArgNames(m), argvals)
    ELSE IsObjOf(j, ArgNames(m), argvals)

(* the same for an elaborated method *)
IsMsgJsonE(j, m, argvals) ==
    IF m.kind \in EnumKinds
    THEN /\ IsObj(j) /\ Len(j.f) = 1
         /\ j.f[1].k = m.ser
         /\ IsObjOf(j.f[1].v, ArgNames(m), argvals)
    ELSE IsObjOf(j, ArgNames(m), argvals)
=============================================================================
