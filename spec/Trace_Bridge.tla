----------------------------- MODULE Trace_Bridge -----------------------------
(* Bridge events (real IntoResponse / custom-typed contract) against Bridge.tla *)
EXTENDS Bridge, Json, IOUtils, TraceCommon
Rec == ndJsonDeserialize(IOEnv.VERIF_TRACE)
VARIABLE l
tvars == <<resp, stage, result, l>>
E == Rec[l]
TInit == l = 1 /\ resp = [msgs |-> <<>>, attrs |-> 0, events |-> 0, data |-> "none"] /\ stage = "bridged" /\ result = Pending /\ TLCSet(1, 1)

KindsOf(p) == [i \in 1..Len(p.msgs) |-> p.msgs[i].kind]
CtxSame(seen, env, withInfo) ==
    /\ seen.height = env.height /\ seen.contract = env.contract /\ seen.token = env.token /\ seen.nonce = env.nonce
    /\ withInfo => (seen.sender = env.sender /\ seen.funds = env.funds)
TrBridge ==
    /\ l <= Len(Rec) /\ E.ev = "Bridge"
    \* the handler returned the response the specification described; the bridge step follows
    /\ resp' = E.desc /\ stage' = "bridged" /\ result' = BridgeOf(E.desc)
    /\ Chk("BIND", "built_response_matches_its_description", l,
           KindsOf(E.in) = [i \in 1..Len(E.desc.msgs) |-> E.desc.msgs[i].kind]
           /\ Len(E.in.attrs) = E.desc.attrs /\ Len(E.in.events) = E.desc.events /\ E.in.has_data = (E.desc.data # "none") /\ (E.desc.data = "empty" => E.in.data = ""))
    /\ Chk("C11", "bridging_never_panics", l, E.verdict \in {"ok", "err"})
    /\ Chk("C11", "conversion_fails_exactly_when_a_custom_typed_message_is_present", l,
           (E.verdict = "err") <=> HasCustom(E.desc))
    /\ Chk("C11", "response_reaches_the_caller_intact", l,
           E.verdict = "ok" => E.out = E.in)           \* sub-messages (order, id, payload, gas, trigger, message), attributes, events, data
    /\ Chk("C11", "no_partial_response_on_failure", l, E.verdict # "ok" => Len(E.out.msgs) = 0)
    \* C08: what a generated builder stamped on a sub-message (id, trigger, payload, gas limit) is still on it when the response of a
    \* bridged handler leaves the contract -- otherwise builder and reply dispatch no longer agree
    /\ Chk("C08", "a_sub_message_keeps_id_trigger_payload_and_gas_limit_on_its_way_out", l, E.verdict = "ok" => E.out.msgs = E.in.msgs)
    \* C02, on the dispatch of a contract with chain-custom types: the caller gets the handler's response untouched, the handler the caller's context
    /\ Chk("C02", "caller_gets_the_handlers_own_response_untouched", l, (E.via # "direct" /\ E.verdict = "ok") => E.out = E.in)
    /\ Chk("C02", "handler_ran_exactly_once_with_the_callers_context", l,
           E.via \in {"exec", "sudo", "qexec", "qsudo"} => (Len(E.seen) = 1 /\ CtxSame(E.seen[1], E.env, E.via \in {"exec", "qexec"})))
    \* via: "exec"/"sudo" through a contract with custom message and query types, "qexec"/"qsudo" through one with a custom query type only
    /\ IF E.via \in {"exec", "sudo", "qexec", "qsudo"}
       THEN /\ Chk("C11", "bridged_handler_ran_once_with_the_callers_context", l,
                   Len(E.seen) = 1 /\ CtxSame(E.seen[1], E.env, E.via \in {"exec", "qexec"}))
            /\ Chk("C11", "bridged_handler_sees_what_a_native_handler_sees", l,
                   (E.via = "exec" /\ Len(E.seen) = 1) =>
                      /\ E.native.height = E.seen[1].height /\ E.native.contract = E.seen[1].contract /\ E.native.token = E.seen[1].token
                      /\ E.native.nonce = E.seen[1].nonce /\ E.native.sender = E.seen[1].sender /\ E.native.funds = E.seen[1].funds)
            /\ Chk("C11", "bridged_handler_used_the_callers_storage", l, E.mark = (IF E.via \in {"exec", "qexec"} THEN "echo_exec" ELSE "echo_sudo"))
       ELSE TRUE
    /\ Chk("C11", "invariant_C11_FailsExactlyOnCustom", l, C11_FailsExactlyOnCustom')
    /\ l' = l + 1 /\ TLCSet(1, l + 1)
(* a query of an interface written for the empty custom query type, on a contract with a custom query type *)
TrBridgeQuery ==
    /\ l <= Len(Rec) /\ E.ev = "BridgeQuery"
    /\ Chk("C11", "bridged_query_handler_ran_once_with_the_callers_context", l,
           E.verdict = "ok" /\ Len(E.seen) = 1 /\ CtxSame(E.seen[1], E.env, FALSE))
    /\ Chk("C11", "bridged_query_handler_uses_the_callers_querier", l,
           E.verdict = "ok" => E.answer = [t |-> "o", f |-> <<[k |-> "nonce", v |-> [t |-> "s", v |-> E.env.nonce]]>>])
    /\ l' = l + 1 /\ TLCSet(1, l + 1)
    /\ UNCHANGED <<resp, stage, result>>
TSpec == TInit /\ [][TrBridge \/ TrBridgeQuery]_tvars
TraceAccepted ==
    LET reached == TLCGet(1) IN
    IF reached = Len(Rec) + 1 THEN TRUE ELSE Print(<<"UNMATCHED", reached, Rec[reached].seq>>, FALSE)
=============================================================================
