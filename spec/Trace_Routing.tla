--------------------------- MODULE Trace_Routing ---------------------------
(***************************************************************************)
(* Trace validation of the compiled routing corpus against Runtime.tla.    *)
(*                                                                         *)
(* Every recorded event is one action of the run-time machine (or a static *)
(* observation of the expansion); the action of the specification is       *)
(* re-executed with the logged values bound to it, and the clauses of the  *)
(* properties are evaluated on the step (named checks, see TraceCommon).   *)
(*   IOEnv.VERIF_PROGS  the elaborated programs TLC emitted (EmitCorpus)   *)
(*   IOEnv.VERIF_TRACE  the events recorded from the real code             *)
(***************************************************************************)
EXTENDS Program, Json, IOUtils, TraceCommon

Progs == ndJsonDeserialize(IOEnv.VERIF_PROGS)
Rec   == ndJsonDeserialize(IOEnv.VERIF_TRACE)

VARIABLES prog, pv, stage, ep, doc, dec, ran, res, origin,
          l,     \* next event to consume
          fx     \* what the flight in progress was delivered with (logged, not modelled by Runtime)
INSTANCE Runtime WITH Programs <- Progs

tvars == <<prog, pv, stage, ep, doc, dec, ran, res, origin, l, fx>>

B == INSTANCE BuilderOps
NoFx == [via |-> "", env |-> <<>>, docj |-> <<>>, method |-> "", part |-> "", lastpv |-> <<>>, lastsv |-> "", lastdoc |-> <<>>, lastdec |-> NoDec, remote |-> <<>>,
         bld |-> B!NoBuilder, lasttag |-> 0, qlists |-> <<>>]

ProgIx(id) == CHOOSE i \in 1..Len(Progs) : Progs[i].id = id
PartIx(q, pid) == CHOOSE i \in 1..Len(q.parts) : q.parts[i].id = pid
HasPart(q, pid) == \E i \in 1..Len(q.parts) : q.parts[i].id = pid

E == Rec[l]
IsEvent(name) == l <= Len(Rec) /\ Rec[l].ev = name /\ l' = l + 1

TInit ==
    /\ l = 1 /\ TLCSet(1, 1)
    /\ prog = 1 /\ pv = <<>> /\ stage = "fresh"
    /\ ep = "none" /\ doc = NoDoc /\ dec = NoDec /\ ran = <<>> /\ res = "none" /\ origin = Chain
    /\ fx = NoFx

(* ---- a program was built and starts running --------------------------- *)
TrReset ==
    /\ IsEvent("Reset")
    /\ prog' = ProgIx(E.prog)
    /\ Chk("C05", "a_program_that_compiles_has_no_shared_name", l, Progs[ProgIx(E.prog)].accepted)
    /\ stage' = "idle"
    /\ pv' = <<>> /\ ep' = "none" /\ doc' = NoDoc /\ dec' = NoDec /\ ran' = <<>> /\ res' = "none" /\ origin' = Chain
    /\ fx' = NoFx

(* ---- rustc's verdict on the program (with the real macros) ------------- *)
TrBuild ==
    /\ IsEvent("Build")
    /\ LET q == Progs[ProgIx(E.prog)] IN
       /\ Chk("C05", "a_name_shared_between_two_parts_is_rejected_at_build_time", l,
              ~q.accepted => (E.verdict = "error" /\ E.overlap))
       /\ Chk("C05", "a_program_without_a_shared_name_builds", l, q.accepted => E.verdict = "ok")
    /\ UNCHANGED <<prog, pv, stage, ep, doc, dec, ran, res, origin, fx>>

(* ---- the list a part publishes ---------------------------------------- *)
TrLists ==
    /\ IsEvent("Lists")
    /\ stage = "idle"
    /\ Chk("BIND", "lists_part_exists", l, HasPart(P, E.part))
    /\ Chk("C05", "published_list_is_sorted_set_of_serialised_names", l,
           E.listed = P.parts[PartIx(P, E.part)].lists[E.kind])
    \* the observed query names of every part are remembered: the response table must be keyed by the names a client can send (C16)
    /\ fx' = IF E.kind = "query" THEN [fx EXCEPT !.qlists = (E.part :> E.listed) @@ @] ELSE fx
    /\ UNCHANGED <<prog, pv, stage, ep, doc, dec, ran, res, origin>>

(* ---- a message value built by the program, encoded and decoded -------- *)
MethodOf(q, pid, name) == CHOOSE m \in Range(q.parts[PartIx(q, pid)].methods) : m.name = name
TrEncode ==
    /\ IsEvent("Encode")
    /\ stage = "idle"
    /\ LET m == MethodOf(P, E.part, E.method)
           vals == [i \in 1..Len(E.args) |-> E.args[i].json]
       IN /\ Chk("BIND", "encode_args_are_the_methods", l, [i \in 1..Len(E.args) |-> E.args[i].n] = ArgNames(m))
          /\ Chk("C01", "json_is_name_keyed_object_of_own_argument_encodings", l, IsMsgJsonE(E.json, m, vals))
          \* (a handler whose message is written under one name and read under another -- forwarded `rename(serialize = ..)` -- does not
          \*  read back what it writes: the user's own choice)
          /\ Chk("C01", "parsing_own_json_gives_equal_message", l, m.ser = m.wire => E.roundtrip)
          /\ Chk("C01", "parsing_the_specifications_document_gives_equal_message", l, E.spec_doc_eq)
    /\ UNCHANGED <<prog, pv, stage, ep, doc, dec, ran, res, origin, fx>>

(* ---- a document arrives ------------------------------------------------ *)
DocOf(e) == [shape |-> e.shape, key |-> e.key, body |-> e.body, path |-> e.via]
ShapeMatches(e) ==      \* the rendered text has the shape the specification asked for
    CASE e.shape = "obj1" -> IsObj(e.doc) /\ Len(e.doc.f) = 1 /\ e.doc.f[1].k = e.key
      [] e.shape = "obj0" -> IsObj(e.doc) /\ Len(e.doc.f) = 0
      [] e.shape = "obj2" -> IsObj(e.doc) /\ Len(e.doc.f) = 2 /\ e.doc.f[1].k # e.doc.f[2].k
      [] e.shape = "dup"  -> IsObj(e.doc) /\ Len(e.doc.f) = 2 /\ e.doc.f[1].k = e.doc.f[2].k
      [] e.shape = "nonobj" -> ~IsObj(e.doc)
      [] OTHER -> IsObj(e.doc)
TrDeliver ==
    /\ IsEvent("Deliver")
    /\ Chk("BIND", "document_has_the_requested_shape", l, ShapeMatches(E))
    /\ Chk("C06", "documents_are_only_delivered_to_emitted_entry_points", l,
           E.ep \in (IF E.via = "ep" THEN EpKinds(P) ELSE MtKinds(P)))
    /\ IF E.remote = ""
       THEN Deliver(E.ep, DocOf(E))
       ELSE /\ Chk("BIND", "remote_flight_follows_its_RemoteMsg", l, fx.remote # <<>> /\ fx.remote.helper = E.remote)
            /\ Chk("C10", "the_delivered_document_is_the_message_the_helper_built", l, E.doc = fx.remote.body)
            /\ LET pid == IF E.remote = "instantiate" THEN "own" ELSE E.part
                    m == IF E.remote = "instantiate" THEN EMethodsOf(P.parts[PartIx(P, "own")], "instantiate")[1]
                         ELSE MethodOf(P, E.part, E.method)
               IN RemoteSend(PartIx(P, pid), m)
    /\ Chk("BIND", "mt_flight_repeats_the_previous_document", l,
           (E.via = "mt" /\ E.ep \notin Overridden(P) /\ E.ep \in EpKinds(P)) => fx.lastdoc = E.doc)
    /\ fx' = [fx EXCEPT !.via = E.via, !.env = E.env, !.docj = E.doc, !.method = E.method, !.part = E.part,
                        !.lastdoc = E.doc]

(* ---- the contract-level message decodes it (entry point path: logged) -- *)
PartRec(e, pid) == CHOOSE r \in Range(e.parts) : r.part = pid
Observed(e, q) == [i \in 1..Len(q.parts) |-> PartRec(e, q.parts[i].id).verdict = "ok"]
AllWires(q, k) == UNION {EWireNames(q.parts[i], k) : i \in 1..Len(q.parts)}
AllListed(q, k) == UNION {Range(q.parts[i].lists[k]) : i \in 1..Len(q.parts)}        \* the supported messages, as published
TrWrapperDecode ==
    /\ IsEvent("WrapperDecode")
    /\ stage = "delivered" /\ ep \in EnumKinds /\ fx.via = "ep"
    /\ LET o == Observed(E, P) IN
       /\ Chk("C03", "decoding_never_panics", l,
              E.verdict \in {"ok", "err"} /\ \A r \in Range(E.parts) : r.verdict \in {"ok", "err"})
       /\ Chk("C01", "each_part_accepts_its_own_messages_and_no_other_name", l, OracleOk(P, ep, doc, o))
       /\ Chk("C17", "a_forwarded_default_makes_the_argument_optional_on_the_wire", l, doc.body = "dropdefault" => E.verdict = "ok")
       \* the contract-level message is a message type of this kind too: it accepts the message of every annotated method of every part
       /\ Chk("C01", "contract_level_message_accepts_the_message_of_every_annotated_method", l,
              (doc.shape = "obj1" /\ doc.body = "exact" /\ P.accepted /\ doc.key \in AllWires(P, ep)) => E.verdict = "ok")
       \* the step is bound to what was observed; the specification's mechanism is compared with it
       /\ pv' = o
       /\ dec' = [verdict |-> IF E.verdict = "ok" THEN "ok" ELSE "err",
                  part |-> IF E.verdict = "ok" /\ HasPart(P, E.part) THEN PartIx(P, E.part) ELSE 0, why |-> "observed"]
       /\ stage' = "decoded"
       /\ UNCHANGED <<prog, ep, doc, ran, res, origin>>
       /\ Chk("C03", "accepts_iff_exactly_one_part_accepts", l,
              (E.verdict = "ok") <=> (Cardinality({i \in DOMAIN o : o[i]}) = 1))
       /\ Chk("C03", "decodes_to_that_parts_value", l,
              E.verdict = "ok" => (HasPart(P, E.part) /\ o[PartIx(P, E.part)]))
       /\ Chk("C03", "encodes_back_like_the_part_alone", l,
              E.verdict = "ok" => E.reencode = PartRec(E, E.part).encode)
       /\ Chk("C03", "unknown_name_error_lists_the_supported_messages", l,
              (E.verdict = "err" /\ doc.shape = "obj1" /\ doc.key \notin AllWires(P, ep)) =>
                  AllListed(P, ep) \subseteq Range(E.mentions))
       /\ Chk("C03", "verdict_and_part_are_those_of_first_match_routing_over_the_names_the_parts_answer_to", l,
              LET r == WrapperResult(P, ep, doc, o) IN
              /\ r.verdict = E.verdict
              /\ E.verdict = "ok" => P.parts[r.part].id = E.part)
    /\ fx' = [fx EXCEPT !.lastpv = Observed(E, P), !.lastdec = dec']

TrStructDecode ==
    /\ IsEvent("StructDecode")
    /\ stage = "delivered" /\ ep \in {"instantiate", "migrate"} /\ fx.via = "ep"
    /\ Chk("C03", "decoding_never_panics", l, E.verdict \in {"ok", "err"})
    /\ Chk("C01", "struct_message_accepts_its_own_flat_encoding", l, StructVerdictOk(E.verdict))
    /\ Chk("C17", "a_forwarded_default_makes_the_argument_optional_on_the_wire", l, doc.body = "dropdefault" => E.verdict = "ok")
    /\ StructDecode(E.verdict)
    /\ fx' = [fx EXCEPT !.lastsv = E.verdict]
    /\ UNCHANGED pv

(* ---- multitest `Contract` impl path: decoding happens inside the call -- *)
(* (silent step: the same document was decoded on the entry-point path just before) *)
TrSilentDecode ==
    /\ stage = "delivered" /\ fx.via = "mt"
    /\ IF AbsentKind THEN AbsentReject
       ELSE IF ByOverride
       THEN \* the user's function decodes its own message type: whether it accepted is read off the next event
            OverrideDecode(IF l <= Len(Rec) /\ Rec[l].ev = "Handler" THEN "ok" ELSE "err")
       ELSE IF ep \in EnumKinds
       THEN /\ pv' = fx.lastpv /\ dec' = fx.lastdec /\ stage' = "decoded" /\ UNCHANGED <<prog, ep, doc, ran, res, origin>>
       ELSE StructDecode(fx.lastsv) /\ UNCHANGED pv
    /\ UNCHANGED <<l, fx>>

(* ---- a handler reports that it is running ------------------------------ *)
OwnerMethod ==      \* the method the decoded value was generated from
    LET part == IF dec.part \in 1..Len(P.parts) THEN P.parts[dec.part] ELSE NoPart IN
    IF ep \in EnumKinds THEN (IF EOwnersIn(part, ep, doc.key) # {} THEN CHOOSE m \in EOwnersIn(part, ep, doc.key) : TRUE ELSE NoMethod)
    ELSE IF Len(EMethodsOf(part, ep)) > 0 THEN EMethodsOf(part, ep)[1] ELSE NoMethod

EmptyObj == [t |-> "o", f |-> <<>>]
BodyOf(dj) ==        \* the object holding the arguments (a document that has none -- not an object, no member -- holds no arguments)
    IF ~IsObj(dj) THEN EmptyObj
    ELSE IF ep \in EnumKinds THEN (IF Len(dj.f) >= 1 /\ IsObj(dj.f[1].v) THEN dj.f[1].v ELSE EmptyObj) ELSE dj
SentArgsOk(e, dj) ==        \* every logged argument equals the member of the same name in the document
    \A i \in 1..Len(e.args) :
        LET hits == {x \in 1..Len(BodyOf(dj).f) : BodyOf(dj).f[x].k = e.args[i].n} IN
        hits # {} => \A x \in hits : BodyOf(dj).f[x].v = e.args[i].json
CtxOk(e) ==
    /\ e.ctx.height = fx.env.height /\ e.ctx.contract = fx.env.contract
    /\ e.ctx.token = fx.env.token /\ e.ctx.nonce = fx.env.nonce
    /\ e.ctx.tx = fx.env.tx                      \* the environment whole: also the transaction it says the call runs in (or none)
    /\ IF e.kind \in {"exec", "instantiate"}
       THEN e.ctx.sender = fx.env.sender /\ e.ctx.funds = fx.env.funds
       ELSE e.ctx.sender = "" /\ e.ctx.funds = <<>>

TrOverrideHandler ==      \* the user's own entry point function reports that it runs
    /\ IsEvent("Handler")
    /\ stage = "decoded" /\ dec.why = "override"
    /\ Chk("C04", "handler_kind_is_the_entry_points_kind", l, E.kind = ep)
    /\ OverrideRun
    /\ Chk("C06", "an_overridden_kind_reaches_the_users_function", l,
           ran'[Len(ran')] = [part |-> E.part, name |-> E.name, kind |-> E.kind])
    /\ Chk("C06", "users_function_gets_the_callers_context", l, CtxOk(E))
    /\ UNCHANGED <<pv, fx>>

TrHandler ==
    /\ IsEvent("Handler")
    /\ stage \in {"decoded", "ran"} /\ dec.why # "override"
    /\ Chk("C04", "handler_kind_is_the_entry_points_kind", l, E.kind = ep)
    /\ Chk("C06", "a_kind_that_is_not_overridden_is_served_by_the_generated_code", l, E.part # "override")
    /\ Chk("C02", "a_handler_runs_only_once_after_a_successful_decode", l, stage = "decoded" /\ dec.verdict = "ok")
    /\ Dispatch
    /\ Chk("C02", "the_handler_is_the_one_the_message_was_generated_from", l,
           ran'[Len(ran')] = [part |-> E.part, name |-> E.name, kind |-> E.kind])
    /\ Chk("C02", "every_field_reaches_the_parameter_of_the_same_name", l,
           /\ [i \in 1..Len(E.args) |-> E.args[i].n] = ArgNames(OwnerMethod)
           /\ SentArgsOk(E, fx.docj))
    /\ Chk("C17", "an_argument_left_out_takes_the_default_its_forwarded_attribute_gives_it", l,
           doc.body = "dropdefault" =>
               \A i \in 1..Len(E.args) :
                   (\E a \in Range(OwnerMethod.args) : a.n = E.args[i].n /\ a.t \in {"DfltU32", "DfltU32W"})
                       => E.args[i].json = [t |-> "n", v |-> "0"])
    /\ Chk("C02", "context_is_the_callers", l, CtxOk(E))
    \* (the entry points work on `Contract::new()`, tag 0; the harness calls the multitest impl on a contract value with tag 9)
    /\ Chk("C02", "the_handler_runs_on_the_contract_value_the_call_was_made_on", l, IF fx.via = "mt" THEN E.tag = 9 ELSE E.tag > 1000)
    \* (the constructor numbers the values it builds: 1001, 1002, ..)
    /\ Chk("C06", "every_call_through_an_entry_point_runs_on_a_contract_built_for_that_call", l, fx.via = "ep" => E.tag > fx.lasttag)
    /\ Chk("C06", "entry_point_dispatches_with_the_given_deps_env_and_info", l,
           fx.via = "ep" => (CtxOk(E) /\ ran'[Len(ran')] = [part |-> E.part, name |-> E.name, kind |-> E.kind]))
    /\ fx' = IF fx.via = "ep" THEN [fx EXCEPT !.lasttag = E.tag] ELSE fx
    /\ UNCHANGED pv

(* ---- the call returns --------------------------------------------------- *)
OkAttrs(m) == << <<"h", m.name>>, <<"code", ToString(m.code)>> >>
OutcomeOk(e, m) ==
    IF m.outcome = "ok"
    THEN /\ e.verdict = "ok"
         /\ IF m.kind = "query" THEN e.binary = QRespJson(m)
            ELSE e.resp.attrs = OkAttrs(m) /\ e.resp.data = m.name /\ e.resp.msgs = 0 /\ e.resp.events = 0
    ELSE /\ e.verdict = "err" /\ e.err.class = "handler" /\ e.err.code = m.code

TrReturn ==
    /\ IsEvent("Return")
    /\ stage \in {"decoded", "ran"}
    /\ Chk("C02", "a_successful_decode_runs_a_handler_before_returning", l,
           stage = "ran" \/ (stage = "decoded" /\ dec.verdict = "err"))
    /\ Return
    /\ IF stage = "ran" /\ dec.why = "override"
       THEN Chk("C06", "caller_gets_the_users_functions_outcome", l,
                E.verdict = "ok" /\ (ep = "query" \/ E.resp.attrs = << <<"h", "ov_" \o ep>>, <<"code", "0">> >>))
       ELSE IF stage = "ran"
       THEN /\ Chk("C02", "caller_gets_the_handlers_own_outcome", l, OutcomeOk(E, OwnerMethod))
            /\ Chk("C06", "entry_point_returns_the_dispatch_outcome_with_the_contracts_error_type", l,
                   fx.via = "ep" => OutcomeOk(E, OwnerMethod))
            /\ Chk("C02", "handler_used_the_callers_storage", l,
                   E.mark = (IF ep = "query" THEN "" ELSE OwnerMethod.name))
       ELSE IF dec.why = "absent"
       THEN Chk("C04", "a_kind_without_a_handler_refuses_every_document_and_runs_nothing", l,
                E.verdict = "err" /\ E.mark = "")
       ELSE /\ Chk("C03", "a_rejected_document_is_an_error_and_runs_nothing", l,
                   E.verdict = "err" /\ E.mark = "" /\ E.err.class \notin {"handler", "handler_std"})
    /\ UNCHANGED <<pv, fx>>


(* ---- query response metadata (C16) ------------------------------------- *)
(* (a generic query message carries a hidden variant for its type parameters; it is skipped on the wire, so it is no sendable name) *)
RowSet(e) == {<<e.rows[i].name, e.rows[i].ty>> : i \in {j \in 1..Len(e.rows) : e.rows[j].name # "__phantom"}}
NRows(e) == Cardinality({j \in 1..Len(e.rows) : e.rows[j].name # "__phantom"})
(* the types a generic contract's tables were asked with (a table is that of one instantiation; a program that is not generic has one) *)
SchemaInst(e) == IF "inst" \in DOMAIN e THEN e.inst ELSE "GenVal"
TrSchemas ==
    /\ IsEvent("Schemas")
    /\ stage = "idle"
    /\ Chk("C16", "response_table_is_available", l, E.verdict = "ok")
    \* the keys of the table are the names under which the queries can be sent (as the parts publish them), and no other
    /\ LET names == {E.rows[i].name : i \in {j \in 1..Len(E.rows) : E.rows[j].name # "__phantom"}}
           sendable == IF E.part = "contract" THEN UNION {Range(fx.qlists[p]) : p \in DOMAIN fx.qlists}
                       ELSE IF E.part \in DOMAIN fx.qlists THEN Range(fx.qlists[E.part]) ELSE names
       IN Chk("C16", "table_is_keyed_by_the_names_a_client_can_send", l, E.verdict = "ok" => names = sendable)
    /\ Chk("BIND", "schemas_instantiation_is_known", l, SchemaInst(E) \in {"GenVal", "GenVal2"})
    /\ IF E.part = "contract"
       THEN /\ Chk("C16", "contract_table_is_the_union_of_its_parts_tables", l, RowSet(E) = EContractResponsesAt(P, SchemaInst(E)))
            /\ Chk("C16", "every_query_appears_once", l, NRows(E) = Cardinality(EContractResponsesAt(P, SchemaInst(E))))
            /\ Chk("C16", "contract_schema_is_the_any_of_of_its_parts", l,
                       E.anyof = Len(P.parts) /\ ("anyof_same" \in DOMAIN E => E.anyof_same))      \* (as many members, and the members are the parts' own schemas)
       ELSE /\ Chk("BIND", "schemas_part_exists", l, HasPart(P, E.part))
            /\ Chk("C16", "each_query_maps_to_the_schema_of_its_declared_response_type", l,
                   RowSet(E) = EResponsesAt(P.parts[PartIx(P, E.part)], SchemaInst(E)))
            /\ Chk("C16", "every_query_appears_once", l, NRows(E) = Cardinality(EResponsesAt(P.parts[PartIx(P, E.part)], SchemaInst(E))))
    /\ UNCHANGED <<prog, pv, stage, ep, doc, dec, ran, res, origin, fx>>

(* ---- remote helpers (C10) ------------------------------------------------ *)
ArgVals(e) == [i \in 1..Len(e.args) |-> e.args[i].json]
ArgNamesOf(e) == [i \in 1..Len(e.args) |-> e.args[i].n]
TrRemoteMsg ==
    /\ IsEvent("RemoteMsg")
    /\ stage \in {"idle", "returned"}
    /\ Chk("C10", "helper_builds_a_message", l, E.verdict = "ok")
    /\ IF E.verdict # "ok" THEN TRUE
       ELSE IF E.helper \in {"exec", "query"}
       THEN LET m == MethodOf(P, E.part, E.method) IN
            /\ Chk("C10", "message_is_addressed_to_the_handles_contract", l, E.addr = E.handle_addr)
            /\ Chk("C10", "message_carries_the_funds_set_on_the_builder", l, E.funds = E.funds_set)
            /\ Chk("C10", "executor_builds_an_execute_and_querier_a_smart_query", l,
                   E.kind = (IF E.helper = "exec" THEN "execute" ELSE "smart"))
            /\ Chk("C10", "body_is_that_methods_message_with_the_given_arguments", l,
                   ArgNamesOf(E) = ArgNames(m) /\ IsMsgJsonE(E.body, m, ArgVals(E)))
       ELSE IF E.helper = "instantiate"
       THEN LET m == EMethodsOf(P.parts[PartIx(P, "own")], "instantiate")[1] IN
            /\ Chk("C10", "instantiate_builder_keeps_code_id_admin_label_funds_and_salt", l,
                   /\ E.code_id = E.code_id_set /\ E.label = E.label_set /\ E.admin = E.admin_set
                   /\ E.funds = E.funds_set /\ E.salt = E.salt_set
                   /\ E.kind = (IF E.handle = "salted" THEN "instantiate2" ELSE "instantiate"))
            /\ Chk("C10", "body_is_the_instantiate_message_with_the_given_arguments", l,
                   ArgNamesOf(E) = ArgNames(m) /\ IsMsgJsonE(E.body, m, ArgVals(E)))
       ELSE /\ Chk("C10", "admin_helper_addresses_the_handles_contract", l,
                   E.addr = E.handle_addr /\ E.admin = E.admin_set /\ E.kind = E.helper)
    /\ fx' = [fx EXCEPT !.remote = E]
    /\ UNCHANGED <<prog, pv, stage, ep, doc, dec, ran, res, origin>>

TrRemoteQueryReturn ==
    /\ IsEvent("RemoteQueryReturn")
    /\ stage \in {"idle", "returned"}
    /\ LET m == MethodOf(P, E.part, E.method) IN
       Chk("C10", "query_helper_returns_the_decoded_response_of_that_query", l,
           IF m.outcome = "ok" THEN E.verdict = "ok" /\ E.value = QRespJson(m) ELSE E.verdict = "err")
    /\ UNCHANGED <<prog, pv, stage, ep, doc, dec, ran, res, origin, fx>>

(* ---- the builders behind the remote helpers, one event per call (C10, BuilderOps) ---- *)
TrBuilderNew ==
    /\ IsEvent("BuilderNew")
    /\ stage \in {"idle", "returned"}
    /\ Chk("BIND", "builder_target_is_known", l, E.target \in B!Targets)
    /\ fx' = [fx EXCEPT !.bld = B!New(E.target)]
    /\ UNCHANGED <<prog, pv, stage, ep, doc, dec, ran, res, origin>>
TrBuilderSet ==
    /\ IsEvent("BuilderSet")
    /\ stage \in {"idle", "returned"}
    /\ Chk("BIND", "setter_belongs_to_the_builder", l, fx.bld.target # "none" /\ [f |-> E.f, v |-> E.v] \in B!Setters(fx.bld.target))
    /\ fx' = [fx EXCEPT !.bld = B!Set(fx.bld, E.f, E.v)]
    /\ UNCHANGED <<prog, pv, stage, ep, doc, dec, ran, res, origin>>
TrBuilderBuild ==
    /\ IsEvent("BuilderBuild")
    /\ stage \in {"idle", "returned"}
    /\ Chk("BIND", "a_builder_exists", l, fx.bld.target # "none" /\ E.fin \in B!FinsOf(fx.bld.target))
    /\ Chk("C10", "helper_builds_a_message", l, E.verdict = "ok")
    /\ LET m == B!Msg(fx.bld, E.fin) IN
       E.verdict = "ok" =>
         /\ Chk("C10", "built_message_is_of_the_builders_kind", l, E.kind = m.kind)
         /\ Chk("C10", "built_message_carries_the_funds_set_last", l, E.funds = m.funds)
         /\ Chk("C10", "built_message_carries_the_label_set_last_or_none", l, E.label = m.label)
         /\ Chk("C10", "built_message_carries_the_admin_set_last_or_none", l, E.admin = m.admin)
         /\ Chk("C10", "built_message_is_salted_iff_built_with_a_salt", l, (E.salt # "") = m.salted /\ E.salt = E.salt_set)
         /\ Chk("C10", "built_message_keeps_address_or_code_id", l,
                IF fx.bld.target = "exec" THEN E.addr = E.handle_addr ELSE E.code_id = E.code_id_set)
    /\ fx' = [fx EXCEPT !.bld = B!NoBuilder]
    /\ UNCHANGED <<prog, pv, stage, ep, doc, dec, ran, res, origin>>

(* ---- generated code panicked while the harness was driving it (the panic is data, not a tool failure) ---- *)
PropOfPanic(w) == CASE w = "encode" -> "C01" [] w = "schemas" -> "C16" [] w = "multitest" -> "C12" [] w = "call" -> "C03" [] OTHER -> "C10"
TrPanic ==
    /\ IsEvent("Panic")
    /\ Chk(PropOfPanic(E.where), "generated_code_does_not_panic", l, FALSE)
    \* a call that panicked never returns: the delivery is over
    /\ IF E.where = "call" THEN stage' = "returned" /\ res' = "err" ELSE UNCHANGED <<stage, res>>
    /\ UNCHANGED <<prog, pv, ep, doc, dec, ran, origin, fx>>

TStep == TrPanic \/ TrBuilderNew \/ TrBuilderSet \/ TrBuilderBuild \/ TrBuild \/ TrSchemas \/ TrRemoteMsg \/ TrRemoteQueryReturn \/ TrReset \/ TrLists \/ TrEncode \/ TrDeliver \/ TrWrapperDecode \/ TrStructDecode
         \/ TrSilentDecode \/ TrOverrideHandler \/ TrHandler \/ TrReturn

(* the design-level invariants of Runtime.tla, evaluated in every state the trace reaches *)
(* (as a named check on the step, so that a violation is reported like any other clause)  *)
InvariantsHold ==
    /\ Chk("C03", "invariant_C03_Routing", l, C03_Routing')
    /\ Chk("C04", "invariant_C04_KindSeparation", l, C04_KindSeparation')
    /\ Chk("C02", "invariant_C02_ExactlyOne", l, C02_ExactlyOne')
    /\ Chk("C05", "invariant_C05_NoSharedName", l, C05_NoSharedName')
    /\ Chk("C06", "invariant_C06_OnlyEmitted", l, C06_OnlyEmitted')
    /\ Chk("C06", "invariant_C06_OverrideReachesUser", l, C06_OverrideReachesUser')
    /\ Chk("C06", "invariant_C06_OverrideIsLocal", l, C06_OverrideIsLocal')
    /\ Chk("C10", "invariant_C10_RemoteRoutesBack", l, C10_RemoteRoutesBack')
TNext == TStep /\ (rvars' = rvars \/ InvariantsHold) /\ TLCSet(1, l')     \* (a state that did not change was judged when it was reached)
TSpec == TInit /\ [][TNext]_tvars

TraceAccepted ==
    LET reached == TLCGet(1) IN
    IF reached = Len(Rec) + 1 THEN TRUE
    ELSE Print(<<"UNMATCHED", reached, Rec[reached]>>, FALSE)
=============================================================================
