------------------------------ MODULE Multitest ------------------------------
(***************************************************************************)
(* C12: the multitest proxies generated for a contract are equivalent to   *)
(* submitting the corresponding JSON to the underlying test chain.         *)
(*                                                                         *)
(* The abstract chain: code ids stored, contracts instantiated from them.  *)
(* A contract's state is what its echo handlers leave behind: the name of  *)
(* the last handler that ran (`mark`), how many ran (`count`), plus what   *)
(* the chain keeps: label, admin, code id, balance.                        *)
(* Every operation is applied to two chains -- through the proxies and as  *)
(* raw JSON; the machine below says what either of them must do.           *)
(***************************************************************************)
EXTENDS Program

CONSTANT Programs       \* sequence of elaborated programs (Program!Elab)

VARIABLES prog,     \* index of the program under test
          codes,    \* number of code ids stored (code ids are 1..codes)
          ctr,      \* the contract instantiated last: [exists, code, label, admin, mark, count, bal] (one contract per history suffices)
          last,     \* result of the last operation: [ok, kind, code]   kind: "none" | "resp" | "value" | "handler_err"
          blk,      \* blocks the chain was moved on by since it started (App::update_block / set_block)
          hist      \* history of operations (stimuli for the implementation)
mvars == <<prog, codes, ctr, last, blk, hist>>

MP == Programs[prog]
OwnPart == MP.parts[Len(MP.parts)]
Senders == {"alice", "bob"}
NoCtr == [exists |-> FALSE, code |-> 0, label |-> "", admin |-> "", mark |-> "", count |-> 0, bal |-> 0, funds |-> 0]
(* funds codes: n atom; 7 stands for two coins given in non-alphabetical order: 4 zeta, then 3 atom *)
AtomOf(f) == IF f = 7 THEN 3 ELSE f
NoRes == [ok |-> TRUE, kind |-> "none", code |-> 0]

(* (queries whose declared response type differs from what the handler returns cannot be decoded by their own helpers: left out) *)
MethodsOfKind(k) == UNION {{[part |-> MP.parts[i].id, m |-> m] : m \in {x \in Range(EMethodsOf(MP.parts[i], k)) : x.ret = x.resp}} : i \in 1..Len(MP.parts)}
InstM == EMethodsOf(OwnPart, "instantiate")[1]
HasMigrate == Len(EMethodsOf(OwnPart, "migrate")) > 0
MigM == EMethodsOf(OwnPart, "migrate")[1]

Op(name, part, method, val, sender, funds, label, admin, salt) ==
    [op |-> name, part |-> part, method |-> method, val |-> val, sender |-> sender, funds |-> funds,
     label |-> label, admin |-> admin, salt |-> salt,
     \* the label of the corresponding raw submission: the proxy's documented default when none is set
     rawlabel |-> IF label = "" THEN "Contract" ELSE label]

(* outcome of running handler m: what the caller gets *)
ResOf(m) == IF m.outcome = "ok" THEN [ok |-> TRUE, kind |-> IF m.kind = "query" THEN "value" ELSE "resp", code |-> m.code]
            ELSE [ok |-> FALSE, kind |-> "handler_err", code |-> m.code]

CountOps(name) == Cardinality({i \in 1..Len(hist) : hist[i].op = name})
Store ==
    /\ codes < 2                      \* (two code ids are enough to migrate between)
    /\ codes' = codes + 1
    /\ last' = NoRes
    /\ hist' = Append(hist, Op("store", "", "", 0, "", 0, "", "", ""))
    /\ UNCHANGED <<prog, ctr, blk>>

(* ---- the helpers of the test harness that do not talk to a contract ------------------------------------------ *)
(* the chain is moved on by n blocks: relative to the current block (update_block) or by writing the whole block  *)
(* information (set_block); a contract's state does not change, later operations see the new height              *)
MoveBlock(how, n) ==
    /\ codes >= 1 /\ blk + n <= 4
    /\ blk' = blk + n
    /\ last' = NoRes
    /\ hist' = Append(hist, Op(how, "", "", n, "", 0, "", "", ""))
    /\ UNCHANGED <<prog, codes, ctr>>
(* what the chain knows about a stored code id *)
CodeInfo(i) ==
    /\ i \in 1..codes
    /\ last' = [ok |-> TRUE, kind |-> "value", code |-> i]
    /\ hist' = Append(hist, Op("code_info", "", "", i, "", 0, "", "", ""))
    /\ UNCHANGED <<prog, codes, ctr, blk>>

(* label: the proxy's default label is "Contract"; admin "" = none, "<empty>" = the empty string given as the admin; *)
(* salt "" = plain instantiate.  An option set several times on the proxy has the value it was set to last: for    *)
(* val = 1 the implementation side sets every option to a decoy value first.                                        *)
Instantiate(val, sender, funds, label, admin, salt) ==
    /\ codes >= 1
    /\ CountOps("instantiate") < 2     \* keep histories busy with calls rather than instantiations
    /\ salt # "" => \A i \in 1..Len(hist) : hist[i].salt = ""      \* a salted address can be taken once
    /\ LET m == InstM IN
       /\ last' = ResOf(m)
       /\ ctr' = IF m.outcome = "ok"
                 THEN [exists |-> TRUE, code |-> codes, label |-> IF label = "" THEN "Contract" ELSE label, admin |-> admin,
                       mark |-> m.name, count |-> 1, bal |-> AtomOf(funds), funds |-> funds]
                 ELSE ctr
    /\ hist' = Append(hist, Op("instantiate", "own", InstM.name, val, sender, funds, label, admin, salt))
    /\ UNCHANGED <<prog, codes, blk>>

Exec(pm, val, sender, funds) ==
    /\ ctr.exists /\ pm \in MethodsOfKind("exec")
    /\ last' = ResOf(pm.m)
    /\ ctr' = IF pm.m.outcome = "ok" THEN [ctr EXCEPT !.mark = pm.m.name, !.count = @ + 1, !.bal = @ + AtomOf(funds), !.funds = funds]
                 ELSE ctr   \* a failed call changes nothing
    /\ hist' = Append(hist, Op("exec", pm.part, pm.m.name, val, sender, funds, "", "", ""))
    /\ UNCHANGED <<prog, codes, blk>>

Query(pm, val) ==
    /\ ctr.exists /\ pm \in MethodsOfKind("query")
    /\ last' = ResOf(pm.m)
    /\ hist' = Append(hist, Op("query", pm.part, pm.m.name, val, "", 0, "", "", ""))
    /\ UNCHANGED <<prog, codes, ctr, blk>>

Sudo(pm, val) ==
    /\ ctr.exists /\ pm \in MethodsOfKind("sudo")
    /\ last' = ResOf(pm.m)
    /\ ctr' = IF pm.m.outcome = "ok" THEN [ctr EXCEPT !.mark = pm.m.name, !.count = @ + 1] ELSE ctr
    /\ hist' = Append(hist, Op("sudo", pm.part, pm.m.name, val, "", 0, "", "", ""))
    /\ UNCHANGED <<prog, codes, blk>>

(* only the admin may migrate; histories keep to operations the chain itself admits *)
Migrate(val, sender) ==
    /\ ctr.exists /\ HasMigrate /\ ctr.admin = sender /\ codes >= 1
    /\ last' = ResOf(MigM)
    /\ ctr' = IF MigM.outcome = "ok" THEN [ctr EXCEPT !.mark = MigM.name, !.count = @ + 1, !.code = codes] ELSE ctr
    /\ hist' = Append(hist, Op("migrate", "own", MigM.name, val, sender, 0, "", "", ""))
    /\ UNCHANGED <<prog, codes, blk>>

MNext ==
    \/ Store
    \/ \E val \in {0, 1}, s \in Senders, f \in {0, 5, 7}, lab \in {"", "lbl", " l bl "}, adm \in {"", "<empty>"} \cup Senders, salt \in {"", "s1"} :
           Instantiate(val, s, f, lab, adm, salt)
    \/ \E pm \in MethodsOfKind("exec"), val \in {0, 1}, s \in Senders, f \in {0, 3, 7} : Exec(pm, val, s, f)
    \/ \E pm \in MethodsOfKind("query"), val \in {0, 1} : Query(pm, val)
    \/ \E pm \in MethodsOfKind("sudo"), val \in {0, 1} : Sudo(pm, val)
    \/ \E val \in {0, 1}, s \in Senders : Migrate(val, s)
    \/ \E how \in {"update_block", "set_block"}, n \in {1, 2} : MoveBlock(how, n)
    \/ \E i \in 1..2 : CodeInfo(i)

(* how often an operation runs a handler of the contract under test on a chain: the operations that talk to the contract run   *)
(* the handler they name exactly once (histories keep to operations the chain admits), the harness's own helpers run none      *)
HandlerOps == {"instantiate", "exec", "query", "sudo", "migrate"}
RunsOf(o) == IF o.op \in HandlerOps THEN 1 ELSE 0

(* C12 at design level: the contract's state is a function of the history -- a handler error (or a refused    *)
(* operation) leaves no trace, every success leaves exactly its own                                          *)
MethodOfHist(o) == IF o.op = "instantiate" THEN InstM ELSE IF o.op = "migrate" THEN MigM
                   ELSE CHOOSE pm \in MethodsOfKind(o.op) : pm.part = o.part /\ pm.m.name = o.method
OpOk(o) == o.op \in {"store", "update_block", "set_block", "code_info"} \/ (IF o.op \in {"instantiate", "migrate"} THEN MethodOfHist(o).outcome = "ok" ELSE MethodOfHist(o).m.outcome = "ok")
OkInst == {i \in 1..Len(hist) : hist[i].op = "instantiate" /\ OpOk(hist[i])}
LastInst == CHOOSE i \in OkInst : \A j \in OkInst : j <= i
Since == {i \in 1..Len(hist) : i > LastInst /\ OpOk(hist[i])}
RECURSIVE SumAtoms(_)
SumAtoms(S) == IF S = {} THEN 0 ELSE LET i == CHOOSE x \in S : TRUE IN AtomOf(hist[i].funds) + SumAtoms(S \ {i})
C12_ErrorChangesNothing ==
    /\ ctr.exists = (OkInst # {})
    /\ ctr.exists =>
          /\ ctr.count = 1 + Cardinality({i \in Since : hist[i].op \in {"exec", "sudo", "migrate"}})
          /\ ctr.bal = AtomOf(hist[LastInst].funds) + SumAtoms({i \in Since : hist[i].op = "exec"})
          /\ ctr.label = hist[LastInst].rawlabel /\ ctr.admin = hist[LastInst].admin
C12_CountMatchesHistory ==
    ctr.exists => ctr.count >= 1
(* the chain's height is the sum of the moves in the history *)
RECURSIVE SumMoves(_)
SumMoves(S) == IF S = {} THEN 0 ELSE LET i == CHOOSE x \in S : TRUE IN hist[i].val + SumMoves(S \ {i})
C12_HeightIsSumOfMoves == blk = SumMoves({i \in 1..Len(hist) : hist[i].op \in {"update_block", "set_block"}})
=============================================================================
