---------------------------- MODULE Trace_Chain ----------------------------
(***************************************************************************)
(* Trace validation of sub-messages end to end on a cw-multi-test chain    *)
(* against Chain.tla / Reply.tla.  One transaction of the trace:           *)
(*   ChainFire     the driver sends `fire{h, ..}` to the caller            *)
(*   ChainBuilt    the caller's fire handler reports the sub-message the   *)
(*                 generated builder made (id, trigger, payload)           *)
(*   CalleeRan     the target contract reports what it returns (exec/inst) *)
(*   ReplyHandler  a reply method of the caller reports what it was handed *)
(*   ChainDone     the driver reports the transaction's result and the     *)
(*                 state of both contracts afterwards                      *)
(* Every event is bound to what was observed; what the specification says  *)
(* about it is compared as named clauses (TraceCommon!Chk).                *)
(***************************************************************************)
EXTENDS Reply, Json, IOUtils, TraceCommon

Progs == ndJsonDeserialize(IOEnv.VERIF_PROGS)
Rec   == ndJsonDeserialize(IOEnv.VERIF_TRACE)

VARIABLES pi, cst, tx, sres, rout, store, pstore, fin,
          l,
          fx      \* logged context: the chain (addresses, height), the fire event, the built sub-message, what the callee said
INSTANCE Chain
tvars == <<pi, cst, tx, sres, rout, store, pstore, fin, l, fx>>

E == Rec[l]
IsEvent(name) == l <= Len(Rec) /\ Rec[l].ev = name /\ l' = l + 1
ProgIx(id) == CHOOSE i \in 1..Len(Progs) : Progs[i].id = id
NoFx == [init |-> <<>>, fire |-> <<>>, built |-> <<>>, callee |-> <<>>, ran |-> 0]

TInit == /\ l = 1 /\ pi = 1 /\ cst = "idle" /\ tx = NoTx /\ sres = NoSres /\ rout = NoRout /\ store = Store0 /\ pstore = Store0
         /\ fin = NoFin /\ fx = NoFx /\ TLCSet(1, 1)

StoreOf(v) == [mark |-> v.mark, count |-> v.count, callee |-> v.callee]

(* ---- a fresh chain: caller and callee instantiated ------------------------- *)
TrChainInit ==
    /\ IsEvent("ChainInit")
    /\ pi' = ProgIx(E.prog)
    /\ cst' = "idle" /\ tx' = NoTx /\ sres' = NoSres /\ rout' = NoRout /\ fin' = NoFin
    /\ store' = StoreOf(E.view) /\ pstore' = StoreOf(E.view)
    /\ fx' = [NoFx EXCEPT !.init = E]

(* ---- the driver sends the transaction ---------------------------------------- *)
TrChainFire ==
    /\ IsEvent("ChainFire") /\ cst = "idle"
    /\ Chk("BIND", "stimulus_is_one_of_the_specifications", l,
           ~Legacy(Pr) /\ E.h \in AllHandlers(Pr) /\ E.kind \in ChainKinds /\ E.mode \in ChainModes(E.kind))
    /\ Fire(E.h, E.kind, E.mode)
    /\ fx' = [fx EXCEPT !.fire = E, !.built = <<>>, !.callee = <<>>, !.ran = 0]
    /\ UNCHANGED pi

(* ---- the generated builder ------------------------------------------------------- *)
IdOfH(p, h) == p.handlers[CHOOSE i \in 1..Len(p.handlers) : p.handlers[i].h = h]
TrChainBuilt ==
    /\ IsEvent("ChainBuilt") /\ cst = "fired"
    /\ Chk("C08", "builder_exists_for_every_handler_name_and_succeeds", l, E.verdict = "ok")
    /\ Chk("C08", "reply_requested_for_exactly_the_outcomes_that_have_a_method", l, E.verdict = "ok" => E.reply_on = ReplyOn(Pr, tx.h))
    /\ Chk("C08", "wrapped_message_kept", l, E.verdict = "ok" => E.msg_eq)
    \* the machine goes on with the trigger that was observed: what the chain does next depends on it
    /\ tx' = [tx EXCEPT !.reply_on = IF E.verdict = "ok" THEN E.reply_on ELSE "never"]
    /\ cst' = "built"
    /\ fx' = [fx EXCEPT !.built = E]
    /\ UNCHANGED <<pi, sres, rout, store, pstore, fin>>

(* ---- the target runs (exec / inst: it reports; bank: nothing to report) ------------ *)
TrCalleeRan ==
    /\ IsEvent("CalleeRan") /\ cst = "built"
    /\ Chk("BIND", "the_target_got_the_message_the_builder_wrapped", l, E.kind = tx.kind)
    \* (for kind "exec" the wrapped message was built by the target's generated executor helper)
    /\ Chk("C10", "executor_helper_message_runs_the_targets_method_with_equal_arguments", l, E.mode = tx.mode /\ E.nev = fx.fire.nev)
    /\ SubRun
    /\ fx' = [fx EXCEPT !.callee = E]

SilentBankRun == cst = "built" /\ tx.kind = "bank"      \* the bank module reports nothing: its step is taken silently
Subdone == cst = "subdone" \/ SilentBankRun
SresNow == IF cst = "subdone" THEN sres ELSE [result |-> ChainResult(tx.mode), class |-> ChainClass(tx.kind, tx.mode)]

(* ---- a reply method of the caller runs ------------------------------------------------ *)
MethodIx(p, name) == IF \E i \in 1..Len(p.methods) : p.methods[i].name = name
                     THEN CHOOSE i \in 1..Len(p.methods) : p.methods[i].name = name ELSE 0
ObservedExtract(mode, e) ==
    CASE mode = "none" -> "nodata"
      [] mode \in {"opt", "rawopt", "instopt"} -> IF e.data = [t |-> "z", v |-> "null"] THEN "none" ELSE "value"
      [] OTHER -> "value"
(* the events of the sub-message as the chain reports them: the module's own event, the target's attributes, its events *)
WasmEv(n) == [i \in 1..n |-> "wasm-ev" \o ToString(i - 1)]
ChainEvents(kind, nev) ==
    CASE kind = "exec" -> <<"execute", "wasm">> \o WasmEv(nev)
      [] kind = "inst" -> <<"instantiate", "wasm">> \o WasmEv(nev)
      [] OTHER         -> <<"transfer">>
CtxOk(m, e, res) ==
    /\ e.ctx.gas_used = "0"                         \* (the test chain does not meter gas)
    /\ e.ctx.height = fx.init.height /\ e.ctx.contract = fx.init.caller
    /\ e.ctx.events = (IF m.on = "success" THEN ChainEvents(tx.kind, fx.fire.nev) ELSE <<>>)
    /\ e.ctx.msg_responses = (IF m.on = "success" THEN 1 ELSE 0)
(* inside the transaction a reply method sees (through the target's generated querier helper) what the sub-message left: *)
(* the target's write if it succeeded, nothing of it if it failed                                                        *)
SeesTarget(e, res) == tx.kind = "exec" => e.ctx.callee_seen = store.callee + (IF res.result = "ok" THEN 1 ELSE 0)
SecondOk(m, e, res) ==
    CASE m.on = "success" -> e.second.kind = "none"
      [] m.on = "error"   -> e.second.kind = "error" /\ (tx.kind # "bank" => e.second.cf)     \* the target's error text
      [] OTHER            -> e.second.kind = "result" /\ e.second.ok = (res.result = "ok")
                             /\ ((res.result = "err" /\ tx.kind # "bank") => e.second.cf)
                             \* the *full* result of a success: the chain's events, its message response, the data in its envelope
                             /\ (res.result = "ok" => /\ e.second.full.events = ChainEvents(tx.kind, fx.fire.nev) /\ e.second.full.msgresp = 1
                                                      /\ (tx.kind # "bank" => e.second.full.data = fx.callee.env_b64))
(* the value handed to the data parameter is what the documented decoding of the chain's envelope yields *)
ValueOk(mode, e, res) ==
    CASE ObservedExtract(mode, e) # "value" -> TRUE
      [] tx.kind = "bank" -> TRUE
      [] mode \in {"raw", "rawopt"} -> e.data = [t |-> "s", v |-> fx.callee.env_b64]               \* byte for byte the envelope
      [] mode \in {"plain", "opt", "plainO"} /\ res.class = "good" -> e.data = fx.callee.data_json
      [] mode \in {"inst", "instopt"} /\ res.class = "good_inst" ->
             e.data.t = "inst" /\ e.data.addr = fx.callee.addr /\ e.data.data = fx.callee.data_b64
      [] OTHER -> TRUE
TrChainReplyHandler ==
    /\ IsEvent("ReplyHandler") /\ (Subdone \/ cst = "handled")
    /\ Chk("C07", "a_reply_runs_at_most_one_handler", l, cst # "handled")
    /\ LET res == SresNow
           r == Route(Pr, tx.h, res.result)
           mi == MethodIx(Pr, E.name)
       IN /\ Chk("C08", "the_chain_replies_only_for_the_outcomes_the_table_covers", l,
                 ChainRepliesFor(ReplyOn(Pr, tx.h), res.result))
          /\ Chk("C07", "the_method_declared_for_this_handler_and_outcome_runs", l, r.kind = "method" /\ r.m = mi)
          /\ IF mi # 0
             THEN LET m == Pr.methods[mi] IN
                  /\ Chk("C07", "context_carries_gas_and_for_success_events_and_message_responses", l, CtxOk(m, E, res))
                  /\ Chk("C07", "second_parameter_is_error_text_or_full_result_as_declared", l, SecondOk(m, E, res))
                  /\ Chk("C10", "query_helper_inside_a_reply_method_sees_the_state_the_transaction_has_reached", l, SeesTarget(E, res))
                  /\ Chk("C08", "payload_parameters_receive_the_values_given_to_the_builder", l, E.payload = fx.built.pay_vals)
                  /\ (m.on = "success" =>
                        /\ Chk("C09", "handler_runs_only_on_data_it_can_be_given", l,
                               ObservedExtract(m.data, E) \in Extract(m.data, res.class))
                        /\ Chk("C09", "data_parameter_holds_the_documented_decoding", l, ValueOk(m.data, E, res)))
                  /\ rout' = [kind |-> "method", m |-> mi, extracted |-> IF m.on = "success" THEN ObservedExtract(m.data, E) ELSE ""]
                  /\ pstore' = [pstore EXCEPT !.mark = m.name, !.count = @ + 1]
                  /\ fin' = IF m.outcome = "ok" THEN [res |-> "ok", data |-> m.name] ELSE [res |-> "err", data |-> ""]
             ELSE rout' = [kind |-> "method", m |-> 0, extracted |-> ""] /\ pstore' = pstore /\ fin' = fin
          /\ sres' = res
    /\ cst' = "handled"
    /\ fx' = [fx EXCEPT !.ran = @ + 1]
    /\ UNCHANGED <<pi, tx, store>>

(* ---- the transaction ends ------------------------------------------------------------------ *)
ViewIs(v, s) == v.mark = s.mark /\ v.count = s.count /\ v.callee = s.callee
TrChainDone ==
    /\ IsEvent("ChainDone") /\ (cst \in {"fired", "built", "subdone", "handled"})
    /\ LET res == SresNow
           r == Route(Pr, tx.h, res.result)
       IN
       IF cst = "fired"          \* the fire handler did not report a sub-message
       THEN /\ Chk("C08", "builder_exists_for_every_handler_name_and_succeeds", l, FALSE)
            /\ fin' = [res |-> E.verdict, data |-> ""] /\ rout' = rout /\ sres' = sres
       ELSE IF cst = "handled"
       THEN \* a reply method ran: the transaction's outcome is that method's
            /\ LET m == Pr.methods[rout.m] IN
               (rout.m # 0 =>
                  /\ Chk("C07", "transaction_outcome_is_the_reply_methods_outcome", l,
                         IF m.outcome = "ok" THEN E.verdict = "ok" /\ E.data = m.name ELSE (E.verdict = "err" /\ E.handler_err))
                  /\ Chk("C07", "the_reply_method_used_the_callers_storage", l,
                         m.outcome = "ok" => (E.view.mark = m.name /\ E.view.count = store.count + 2)))
            /\ fin' = fin /\ rout' = rout /\ sres' = sres
       ELSE \* no reply method ran
            /\ sres' = res
            /\ IF r.kind = "method"
               THEN \* the outcome is covered: the reply must have been delivered; it can only have stopped at the data
                    /\ Chk("C08", "a_covered_outcome_is_answered_by_its_method", l,
                           /\ ChainRepliesFor(tx.reply_on, res.result)
                           /\ r.second = "data" /\ \E x \in Extract(DataMode(Pr, tx.h), res.class) : ~HandlerRuns(x))
                    /\ Chk("C09", "missing_or_undecodable_data_fails_the_transaction", l, E.verdict = "err" /\ ~E.handler_err)
                    /\ rout' = [kind |-> "data_error", m |-> r.m, extracted |-> "missing"]
                    /\ fin' = [res |-> "err", data |-> ""]
               ELSE \* nothing covers the outcome: as if no reply had been requested
                    /\ Chk("C08", "no_reply_is_requested_for_an_outcome_without_a_method", l, ~ChainRepliesFor(tx.reply_on, res.result))
                    /\ Chk("C07", "uncovered_success_goes_on_with_the_callers_own_response", l,
                           res.result = "ok" => (E.verdict = "ok" /\ E.data = "fire" /\ E.view.mark = "fire" /\ E.view.count = store.count + 1))
                    /\ Chk("C07", "uncovered_failure_fails_the_transaction_with_that_error", l,
                           res.result = "err" => (E.verdict = "err" /\ (tx.kind # "bank" => E.err_mentions_callee)))
                    /\ rout' = NoRout
                    /\ fin' = IF res.result = "ok" THEN [res |-> "ok", data |-> "fire"] ELSE [res |-> "err", data |-> ""]
    \* the chain: a failed transaction changes nothing, a successful one commits the target's change as well
    /\ Chk("C07", "a_failed_transaction_leaves_both_contracts_unchanged", l, E.verdict = "err" => ViewIs(E.view, store))
    /\ Chk("C07", "the_targets_state_follows_the_transaction", l,
           E.verdict = "ok" => E.view.callee = store.callee + (IF tx.kind = "exec" /\ tx.mode # "fail" THEN 1 ELSE 0))
    \* the machine goes on from the state that was observed
    /\ store' = StoreOf(E.view) /\ pstore' = StoreOf(E.view)
    /\ cst' = "idle"
    /\ fx' = fx
    /\ UNCHANGED <<pi, tx>>

TrPanic ==
    /\ IsEvent("Panic")
    /\ Chk("C07", "generated_code_does_not_panic", l, FALSE)
    /\ cst' = "idle" /\ tx' = NoTx /\ sres' = NoSres /\ rout' = NoRout /\ fin' = NoFin
    /\ UNCHANGED <<pi, store, pstore, fx>>

TStep == TrChainInit \/ TrChainFire \/ TrChainBuilt \/ TrCalleeRan \/ TrChainReplyHandler \/ TrChainDone \/ TrPanic
TNext == TStep /\ TLCSet(1, l')
TSpec == TInit /\ [][TNext]_tvars

TraceAccepted ==
    LET reached == TLCGet(1) IN
    IF reached = Len(Rec) + 1 THEN TRUE
    ELSE Print(<<"UNMATCHED", reached, Rec[reached]>>, FALSE)
=============================================================================
