---------------------------- MODULE Trace_Hygiene ----------------------------
EXTENDS Naturals, Sequences, TLC, Json, IOUtils, TraceCommon
Rec == ndJsonDeserialize(IOEnv.VERIF_TRACE)
VARIABLES l, first      \* first: shape -> the schema name the first configuration of that shape published
E == Rec[l]
TInit == l = 1 /\ first = <<>> /\ TLCSet(1, 1)
Seen(sh) == \E i \in 1..Len(first) : first[i].shape = sh
FirstOf(sh) == first[CHOOSE i \in 1..Len(first) : first[i].shape = sh].schema
TrHygiene ==
    /\ l <= Len(Rec) /\ E.ev = "Hygiene"
    /\ Chk("C19", "program_builds_with_this_type_parameter_name", l, E.built)
    /\ Chk("C19", "program_behaves_as_with_any_other_name", l, E.built => (E.ran /\ E.handler = "put" /\ E.query = "get"))
    \* (nothing the contract publishes is spelled with the user's parameter names: the schema name of its contract-level message)
    /\ Chk("C19", "published_schema_name_does_not_depend_on_the_parameter_name", l,
           (E.built /\ "schema" \in DOMAIN E /\ Seen(E.shape)) => E.schema = FirstOf(E.shape))
    /\ first' = IF E.built /\ "schema" \in DOMAIN E /\ ~Seen(E.shape) THEN Append(first, [shape |-> E.shape, schema |-> E.schema]) ELSE first
    /\ l' = l + 1 /\ TLCSet(1, l + 1)
TrBuild ==
    /\ l <= Len(Rec) /\ E.ev = "Build"
    /\ Chk("C19", "program_builds_under_the_renamed_dependency", l, E.verdict = "ok")
    /\ l' = l + 1 /\ TLCSet(1, l + 1) /\ UNCHANGED first
TSpec == TInit /\ [][TrHygiene \/ TrBuild]_<<l, first>>
TraceAccepted ==
    LET reached == TLCGet(1) IN
    IF reached = Len(Rec) + 1 THEN TRUE ELSE Print(<<"UNMATCHED", reached, Rec[reached]>>, FALSE)
=============================================================================
