---------------------------- MODULE Trace_Hygiene ----------------------------
EXTENDS Naturals, Sequences, TLC, Json, IOUtils, TraceCommon
Rec == ndJsonDeserialize(IOEnv.VERIF_TRACE)
VARIABLE l
E == Rec[l]
TInit == l = 1 /\ TLCSet(1, 1)
TrHygiene ==
    /\ l <= Len(Rec) /\ E.ev = "Hygiene"
    /\ Chk("C19", "program_builds_with_this_type_parameter_name", l, E.built)
    /\ Chk("C19", "program_behaves_as_with_any_other_name", l, E.built => (E.ran /\ E.handler = "put" /\ E.query = "get"))
    /\ l' = l + 1 /\ TLCSet(1, l + 1)
TrBuild ==
    /\ l <= Len(Rec) /\ E.ev = "Build"
    /\ Chk("C19", "program_builds_under_the_renamed_dependency", l, E.verdict = "ok")
    /\ l' = l + 1 /\ TLCSet(1, l + 1)
TSpec == TInit /\ [][TrHygiene \/ TrBuild]_l
TraceAccepted ==
    LET reached == TLCGet(1) IN
    IF reached = Len(Rec) + 1 THEN TRUE ELSE Print(<<"UNMATCHED", reached, Rec[reached]>>, FALSE)
=============================================================================
