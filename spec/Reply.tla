------------------------------- MODULE Reply -------------------------------
(***************************************************************************)
(* Reply handling (sv::features(replies)): the table built from the        *)
(* `#[sv::msg(reply, handlers=[..], reply_on=..)]` methods, the sub-message *)
(* builders, the reply dispatcher and the extraction of the data field.    *)
(*                                                                         *)
(* A reply method:                                                         *)
(*   [name, handlers (seq, empty = the method's own name), on, data,       *)
(*    payload ("raw" | "bin" | "t1" | "t2" | "t3"), outcome]               *)
(*      ("bin": one Binary parameter without the raw marker; "tn": three   *)
(*       parameters named gas_limit, msg, id)                              *)
(*   data: "none" | "plain" | "opt" | "raw" | "rawopt" | "inst" | "instopt" *)
(*         | "plainO" (the mandatory typed mode, `#[sv::data]`, on a       *)
(*           parameter of type Option<T>: still mandatory)                 *)
(*         (only meaningful on a success method)                           *)
(* A reply program: [id, methods]                                          *)
(***************************************************************************)
EXTENDS Naturals, Sequences, FiniteSets, SequencesExt, Functions, TLC

Outcomes == {"success", "error", "always"}

(* a program of family "legacy" does not enable the `replies` feature: it has one reply method taking the whole *)
(* reply, no handler names, no ids, no builders; every reply -- whatever its id and outcome -- is handed to it   *)
Legacy(p) == p.family = "legacy"
SeqSet(s) == {s[i] : i \in 1..Len(s)}

HandlerIds(m) == IF Len(m.handlers) = 0 THEN <<m.name>> ELSE m.handlers
AllHandlers(p) == IF Legacy(p) THEN {} ELSE UNION {SeqSet(HandlerIds(p.methods[i])) : i \in 1..Len(p.methods)}
MethodsFor(p, h) == {i \in 1..Len(p.methods) : h \in SeqSet(HandlerIds(p.methods[i]))}
MethodsOn(p, h, on) == {i \in MethodsFor(p, h) : p.methods[i].on = on}

(* two declarations for one handler name exclude each other when they claim the same outcome, *)
(* or when one of them claims every outcome                                                  *)
Excludes(a, b) == a = b \/ a = "always" \/ b = "always"

(* methods sharing a handler name must declare payload parameters of the same types; the raw marker is not a type *)
PayTypes(sig) == IF sig = "bin" THEN "raw" ELSE sig

(* the documented rules on reply tables (C18) *)
NoDuplicateHandlerInOneMethod(p) ==
    \A i \in 1..Len(p.methods) : \A a, b \in 1..Len(p.methods[i].handlers) :
        a # b => p.methods[i].handlers[a] # p.methods[i].handlers[b]
ValidTable(p) ==
    /\ \A h \in AllHandlers(p) : \A i, j \in MethodsFor(p, h) :
          i # j => /\ ~Excludes(p.methods[i].on, p.methods[j].on)
                   /\ PayTypes(p.methods[i].payload) = PayTypes(p.methods[j].payload)
    /\ \A i \in 1..Len(p.methods) : p.methods[i].on # "success" => p.methods[i].data = "none"

(* ---- the observable table ---------------------------------------------- *)
Pick(S) == CHOOSE x \in S : TRUE
SuccM(p, h) == IF MethodsOn(p, h, "success") = {} THEN 0 ELSE Pick(MethodsOn(p, h, "success"))
ErrM(p, h)  == IF MethodsOn(p, h, "error") = {} THEN 0 ELSE Pick(MethodsOn(p, h, "error"))
AlwM(p, h)  == IF MethodsOn(p, h, "always") = {} THEN 0 ELSE Pick(MethodsOn(p, h, "always"))

(* which outcomes a reply is requested for (C08) *)
ReplyOn(p, h) ==
    IF AlwM(p, h) # 0 \/ (SuccM(p, h) # 0 /\ ErrM(p, h) # 0) THEN "always"
    ELSE IF SuccM(p, h) # 0 THEN "success" ELSE "error"

PayloadSig(p, h) == p.methods[Pick(MethodsFor(p, h))].payload
(* when the methods of one name disagree on the raw marker, either encoding may be used -- as long as the handlers get the values back *)
PayloadSigs(p, h) == {p.methods[i].payload : i \in MethodsFor(p, h)}
DataMode(p, h) == IF SuccM(p, h) = 0 THEN "none" ELSE p.methods[SuccM(p, h)].data

(* ---- dispatch (C07): which method handles a reply, or what happens otherwise *)
(* result of routing: [kind |-> "method", m, second] | [kind |-> "passthrough"] | [kind |-> "forward_error"] *)
Route(p, h, result) ==
    IF result = "ok"
    THEN IF SuccM(p, h) # 0 THEN [kind |-> "method", m |-> SuccM(p, h), second |-> "data"]
         ELSE IF AlwM(p, h) # 0 THEN [kind |-> "method", m |-> AlwM(p, h), second |-> "result"]
         ELSE [kind |-> "passthrough", m |-> 0, second |-> "none"]
    ELSE IF ErrM(p, h) # 0 THEN [kind |-> "method", m |-> ErrM(p, h), second |-> "error"]
         ELSE IF AlwM(p, h) # 0 THEN [kind |-> "method", m |-> AlwM(p, h), second |-> "result"]
         ELSE [kind |-> "forward_error", m |-> 0, second |-> "none"]

(* ---- data extraction (C09) ---------------------------------------------- *)
(* data classes of the sub-message response:                                *)
(*   "absent"        no data                                                *)
(*   "good"          execute-response envelope holding JSON of the declared type *)
(*   "good_inst"     instantiate-response envelope                          *)
(*   "empty_env"     well-formed execute envelope that carries no data      *)
(*   "bad_env"       bytes that are not an envelope                         *)
(*   "bare_json"     JSON of the declared type without any envelope         *)
(*   "bad_json"      execute envelope whose data is not JSON of the declared type *)
(* outcome: "value" | "none" | "missing" | "decode_err" ; a set = documented nondeterminism *)
Extract(mode, class) ==
    CASE mode = "none"    -> {"nodata"}
      [] mode = "raw"     -> IF class = "absent" THEN {"missing"} ELSE {"value"}
      [] mode = "rawopt"  -> IF class = "absent" THEN {"none"} ELSE {"value"}
      [] mode \in {"plain", "opt", "plainO"} ->
            CASE class = "absent"    -> IF mode = "opt" THEN {"none"} ELSE {"missing"}
              [] class = "good"      -> {"value"}
              [] class = "empty_env" -> IF mode = "opt" THEN {"none", "missing"} ELSE {"missing"}
              [] class = "bad_json"  -> {"decode_err"}
              [] class \in {"bad_json_u0", "bad_json_u1", "bad_json_u2", "bad_json_u3"} -> {"decode_err"}
              [] class = "bare_json" -> {"decode_err"}      \* typed modes decode the envelope first: data without one is undecodable
              [] class = "good_inst" -> {"decode_err", "missing", "none", "value"}   \* another envelope: not specified
              [] OTHER               -> {"decode_err"}
      [] mode \in {"inst", "instopt"} ->
            CASE class = "absent"    -> IF mode = "instopt" THEN {"none"} ELSE {"missing"}
              [] class = "good_inst" -> {"value"}
              [] class \in {"bad_env", "bare_json"} -> {"decode_err"}
              [] OTHER               -> {"decode_err", "value"}                        \* another envelope: not specified
HandlerRuns(x) == x \in {"value", "none", "nodata"}

(* ---- sub-messages on a real chain (Chain.tla) ------------------------------ *)
(* what the generated builder wraps and what the target does with it:          *)
(*   kind  "exec"  WasmMsg::Execute to the callee contract                      *)
(*         "inst"  WasmMsg::Instantiate of the callee's code                    *)
(*         "bank"  BankMsg::Send out of the caller's balance                    *)
(*   mode  what the target returns: no data, JSON of the declared type (short,  *)
(*         or longer than 127 bytes: a two-byte length in the envelope), bytes  *)
(*         that are no JSON, present-but-empty data, or a failure                *)
ChainKinds == {"exec", "inst", "bank"}
ChainModes(kind) == IF kind = "bank" THEN {"nodata", "fail"}
                    ELSE IF kind = "inst" THEN {"nodata", "good", "fail"}
                    ELSE {"nodata", "good", "long", "badjson", "emptydata", "fail"}
ChainResult(mode) == IF mode = "fail" THEN "err" ELSE "ok"
(* the data class of the reply the chain makes (the chain wraps the target's data into the response envelope of the message kind) *)
ChainClass(kind, mode) ==
    CASE mode = "fail"  -> "absent"
      [] kind = "bank"  -> "absent"
      [] kind = "inst"  -> "good_inst"          \* an instantiate response always carries the envelope (address, data or none)
      [] mode = "nodata"    -> "absent"
      [] mode = "emptydata" -> "empty_env"      \* the envelope of empty data is the empty byte string
      [] mode = "badjson"   -> "bad_json"
      [] OTHER              -> "good"
(* the chain replies only for the outcomes the sub-message asked for *)
ChainRepliesFor(on, result) == on = "always" \/ (on = "success" /\ result = "ok") \/ (on = "error" /\ result = "err")
ChainStimOf(p) ==
    IF Legacy(p) THEN <<>>
    ELSE SetToSeq(UNION {{[h |-> h, kind |-> k, mode |-> m] : h \in AllHandlers(p), m \in ChainModes(k)} : k \in ChainKinds})

(* ---- order independence (C14) -------------------------------------------- *)
Obs(p) ==
    [valid |-> ValidTable(p),
     handlers |-> AllHandlers(p),
     table |-> [h \in AllHandlers(p) |->
                   [succ |-> IF SuccM(p, h) = 0 THEN "" ELSE p.methods[SuccM(p, h)].name,
                    err  |-> IF ErrM(p, h) = 0 THEN "" ELSE p.methods[ErrM(p, h)].name,
                    alw  |-> IF AlwM(p, h) = 0 THEN "" ELSE p.methods[AlwM(p, h)].name,
                    on   |-> ReplyOn(p, h), data |-> DataMode(p, h), payload |-> PayloadSig(p, h)]]]
Permuted(p, perm) == [p EXCEPT !.methods = [i \in 1..Len(p.methods) |-> p.methods[perm[i]]]]
OrderIndependent(p) ==
    \A perm \in {f \in [1..Len(p.methods) -> 1..Len(p.methods)] : \A a, b \in 1..Len(p.methods) : a # b => f[a] # f[b]} :
        ValidTable(p) => Obs(Permuted(p, perm)) = Obs(p)
=============================================================================
