----------------------------- MODULE MC_Reply -----------------------------
(***************************************************************************)
(* Bounded instance for the reply properties (C07, C08, C09, C14, C18):    *)
(*  tables    every reply table of at most MaxM methods over the handler   *)
(*            names {h1, h2}, outcomes, payload signatures {raw, t2}       *)
(*            -- valid or not -- (verdict checked in-process: C18, C14)    *)
(*  compiled  the valid ones among them in canonical order, their reversed *)
(*            twins, plus the data-mode programs: compiled and run         *)
(* and the reply machine: BuildSubMsg -> Outcome -> ReplyDispatch -> Return *)
(***************************************************************************)
EXTENDS Reply, Casing, Json, IOUtils

CONSTANTS MaxM,       \* methods per table
          Stride      \* every Stride-th valid canonical table is compiled (all of them are expanded in-process)

HNames == {"h1", "h2"}
HSets == {<<"h1">>, <<"h2">>, <<"h1", "h2">>, <<>>}
MethodName(i) == "m" \o ToString(i)
RM(i, hs, on, pay, data) ==
    [name |-> MethodName(i), handlers |-> hs, on |-> on, data |-> data, payload |-> pay,
     spell |-> "a",      \* how the data attribute is spelled in the source ("b": `opt` first; "c": `#[sv::data()]` for the plain mode)
     hsplit |-> FALSE,   \* TRUE: every handler name in an argument of its own (`handlers=[h1], handlers=[h2]`)
     outcome |-> IF i = 2 THEN "err" ELSE "ok"]
Choice == HSets \X Outcomes \X {"raw", "t2"}
TablesOfLen(n) == {[i \in 1..n |-> RM(i, c[i][1], c[i][2], c[i][3], "none")] : c \in [1..n -> Choice]}
(* three declarations over the two handler names, raw payload: enough to have a declaration shadowed by a non-adjacent one *)
Triples == {[i \in 1..3 |-> RM(i, <<hs[i]>>, on[i], "raw", "none")] : hs \in [1..3 -> HNames], on \in [1..3 -> Outcomes]}
AllTables == UNION {TablesOfLen(n) : n \in 1..MaxM} \cup Triples

TableSeq == TLCEval(SetToSeq(AllTables))
TableProg(i) == [id |-> "T" \o ToString(i), family |-> "tables", methods |-> TableSeq[i]]

(* canonical representatives: methods in non-decreasing (outcome, handlers) rank -- one per permutation class *)
OnRank(on) == CASE on = "success" -> 1 [] on = "error" -> 2 [] OTHER -> 3
HsRank(hs) == CASE hs = <<>> -> 0 [] hs = <<"h1">> -> 1 [] hs = <<"h2">> -> 2 [] OTHER -> 3
MRank(m) == OnRank(m.on) * 10 + HsRank(m.handlers)
(* method names follow positions, so compare tables up to renaming of methods: canonical = ranks non-decreasing *)
Canonical(t) == \A i \in 1..(Len(t) - 1) : MRank(t[i]) <= MRank(t[i + 1])
UniformPayload(t) == \A i, j \in 1..Len(t) : t[i].payload = t[j].payload
CandidateIdx == {i \in 1..Len(TableSeq) : /\ ValidTable(TableProg(i)) /\ Canonical(TableSeq[i]) /\ UniformPayload(TableSeq[i])
                                         /\ NoDuplicateHandlerInOneMethod(TableProg(i))}

CandidateSeq == SetToSortSeq(CandidateIdx, <)
CompiledIdx == {CandidateSeq[k] : k \in {j \in 1..Len(CandidateSeq) : j % Stride = 1 \/ Stride = 1}}

(* a success method with each data mode, alone and merged with an error method declared first / last *)
DataModes == <<"plain", "opt", "raw", "rawopt", "inst", "instopt", "none", "plainO">>       \* plainO: the mandatory typed mode on a parameter of type Option<T>
DataProg(i) == [id |-> "D" \o ToString(i), family |-> "data",
                methods |-> << [RM(1, <<"h1">>, "success", "raw", DataModes[i]) EXCEPT !.name = "on_ok"] >>]
(* the same modes with the attribute's arguments written in the other order: `#[sv::data(opt, raw)]`, `#[sv::data(opt, instantiate)]` *)
DataProgB(i) == [id |-> "DB" \o ToString(i), family |-> "data",
                 methods |-> << [RM(1, <<"h1">>, "success", "raw", DataModes[i]) EXCEPT !.name = "on_ok", !.spell = "b"] >>]
DataProgC == [id |-> "DC1", family |-> "data",
              methods |-> << [RM(1, <<"h1">>, "success", "t2", "plain") EXCEPT !.name = "on_ok", !.spell = "c"] >>]
(* the handler names of a method given in several `handlers=` arguments *)
SplitHandlers(errFirst) ==
    LET s == [RM(1, <<"h1", "h2">>, "success", "t2", "none") EXCEPT !.name = "on_ok", !.hsplit = TRUE]
        e == [RM(2, <<"h1", "h2">>, "error", "t2", "none") EXCEPT !.name = "on_err"]
    IN [id |-> IF errFirst THEN "SPe" ELSE "SPs", family |-> "data", methods |-> IF errFirst THEN <<e, s>> ELSE <<s, e>>]
(* two methods with complementary outcomes that share *two* handler names *)
SharedTwo(errFirst) ==
    LET s == [RM(1, <<"h1", "h2">>, "success", "t2", "none") EXCEPT !.name = "on_ok"]
        e == [RM(2, <<"h1", "h2">>, "error", "t2", "none") EXCEPT !.name = "on_err"]
    IN [id |-> IF errFirst THEN "SHe" ELSE "SHs", family |-> "data", methods |-> IF errFirst THEN <<e, s>> ELSE <<s, e>>]
DataProgMerged(i, errFirst) ==
    LET s == [RM(1, <<"h1">>, "success", "t2", DataModes[i]) EXCEPT !.name = "on_ok"]
        e == [RM(2, <<"h1">>, "error", "t2", "none") EXCEPT !.name = "on_err"]
    IN [id |-> (IF errFirst THEN "DE" ELSE "DS") \o ToString(i), family |-> "data",
        methods |-> IF errFirst THEN <<e, s>> ELSE <<s, e>>]

(* two methods of one handler name that agree on the payload type but not on the raw marker *)
MixProg(i) ==
    LET first == IF i \in {1, 2} THEN "raw" ELSE "bin"
        other == IF first = "raw" THEN "bin" ELSE "raw"
        s == [RM(1, <<"h1">>, "success", IF i \in {1, 3} THEN first ELSE other, "none") EXCEPT !.name = "on_ok"]
        e == [RM(1, <<"h1">>, "error", IF i \in {1, 3} THEN other ELSE first, "none") EXCEPT !.name = "on_err"]
    IN [id |-> "PM" \o ToString(i), family |-> "data", methods |-> IF i \in {1, 3} THEN <<s, e>> ELSE <<e, s>>]

(* payload parameters whose names are those of fields and locals the generated builders and dispatcher deal with *)
NamedPayloadProg(i) ==
    \* (1..3: `gas_limit`, `msg`, `id`; 4..6: `payload`, `data`, `result`; 7..9: `error`, `gas_used`, `events`; 10..12: `deps`, `env`, `msg_responses`; 13..15: `error` (a String), `p2`)
    LET on == IF i % 3 = 1 THEN "success" ELSE IF i % 3 = 2 THEN "error" ELSE "always" IN
    [id |-> "PN" \o ToString(i), family |-> "data",
     methods |-> << [RM(1, <<"h1">>, on, IF i <= 3 THEN "tn" ELSE IF i <= 6 THEN "tm" ELSE IF i <= 9 THEN "te" ELSE IF i <= 12 THEN "td" ELSE "ts", "none") EXCEPT !.name = "on_ok"] >>]

(* reply methods (and so handler names) called like names the generated code uses: `reply` (the entry point), `dispatch_reply`, `new` *)
ReservedNameProg(i) ==
    LET n == IF i = 1 THEN "reply" ELSE IF i = 2 THEN "dispatch_reply" ELSE "payload" IN
    [id |-> "NR" \o ToString(i), family |-> "data",
     methods |-> << [RM(1, <<>>, "success", "t2", "none") EXCEPT !.name = n] >>]

(* one payload parameter of type Binary *without* the raw marker: it is encoded and decoded like any other typed parameter *)
BinPayloadProg(i) ==
    LET on == IF i = 1 THEN "success" ELSE IF i = 2 THEN "error" ELSE "always" IN
    [id |-> "PB" \o ToString(i), family |-> "data",
     methods |-> << [RM(1, <<"h1">>, on, "bin", "none") EXCEPT !.name = "on_ok"] >>]

(* three handler names, one of them shared by two methods and listed *before* a new one: every name still gets an id of its own *)
IdProg ==
    LET a == [RM(1, <<"h1", "h2">>, "success", "t2", "none") EXCEPT !.name = "on_ok"]
        b == [RM(2, <<"h2", "h3">>, "error", "t2", "none") EXCEPT !.name = "on_err"]
        c == RM(3, <<>>, "always", "t2", "none")
    IN [id |-> "ID1", family |-> "data", methods |-> <<a, b, c>>]

(* L4: the reply method returns the *standard* error type (which converts into the contract's): the entry point still returns the contract's *)
LegacyProg(i) == [id |-> "L" \o ToString(i), family |-> "legacy", stdret |-> (i = 4),
                  \* L3: the reply method is not called `reply`, and a sudo handler taking a Reply is (a decoy: it must never get a reply)
                  methods |-> << [RM(IF i \in {3, 4} THEN 1 ELSE i, <<>>, "always", "raw", "none") EXCEPT !.name = IF i = 3 THEN "on_reply" ELSE "reply"] >>,
                  decoy |-> i = 3]

CompiledProgs ==
    TLCEval(SetToSeq(
           {[TableProg(i) EXCEPT !.family = "compiled"] : i \in CompiledIdx}
      \cup {[id |-> "T" \o ToString(i) \o "r", family |-> "compiled", methods |-> Reverse(TableSeq[i])] :
                 i \in {j \in CompiledIdx : Len(TableSeq[j]) > 1}}
      \cup {DataProg(i) : i \in 1..Len(DataModes)}
      \cup {DataProgB(i) : i \in {4, 6}}
      \cup {SharedTwo(b) : b \in BOOLEAN}
      \cup {SplitHandlers(b) : b \in BOOLEAN} \cup {DataProgC}
      \cup {DataProgMerged(i, b) : i \in {1, 3, 5}, b \in BOOLEAN}
      \cup {MixProg(i) : i \in 1..4}
      \cup {NamedPayloadProg(i) : i \in 1..15}
      \cup {BinPayloadProg(i) : i \in 1..3} \cup {IdProg} \cup {ReservedNameProg(i) : i \in 1..3}
      \cup {LegacyProg(i) : i \in 1..4}))

(* ------------------------------------------------------------ the machine *)
Progs == CompiledProgs
VARIABLES pi, st, sub, rep, out
INSTANCE ReplyRT

Init == pi \in 1..Len(Progs) /\ st = "idle" /\ sub = NoSub /\ rep = NoRep /\ out = NoOut
HandlerUniverse == HNames \cup {"h3", "on_ok", "m1", "m2", "m3", "reply", "dispatch_reply", "payload"}
Next ==
    \/ \E h \in HandlerUniverse, r \in Recvs : BuildSubMsg(h, r)
    \/ \E res \in {"ok", "err"}, c \in DataClasses : Outcome(res, c)
    \/ \E h \in HandlerUniverse \cup {"?"}, res \in {"ok", "err"}, c \in DataClasses, py \in {"built", "empty", "garbage"} : Inject(h, res, c, py)
    \/ ReplyDispatch
Spec == Init /\ [][Next]_rvars
(* every reply that reaches the dispatcher is answered (checked under fairness of the dispatcher only, no constraint) *)
FairSpec == Spec /\ WF_rvars(ReplyDispatch)
Dispatched == (st = "replied") ~> (st = "dispatched")

(* C14 (design): the observable table does not depend on declaration order *)
LemmaOrderIndependent == \A i \in 1..Len(TableSeq) : OrderIndependent(TableProg(i))
ASSUME LemmaOrderIndependent

-----------------------------------------------------------------------------
(* emission *)
NameChars(n) == CASE n = "h1" -> <<"h","1">> [] n = "h2" -> <<"h","2">> [] n = "h3" -> <<"h","3">> [] n = "m1" -> <<"m","1">> [] n = "m2" -> <<"m","2">>
                  [] n = "m3" -> <<"m","3">> [] n = "on_ok" -> <<"o","n","_","o","k">> [] n = "on_err" -> <<"o","n","_","e","r","r">>
                  [] n = "reply" -> <<"r","e","p","l","y">> [] n = "payload" -> <<"p","a","y","l","o","a","d">>
                  [] n = "dispatch_reply" -> <<"d","i","s","p","a","t","c","h","_","r","e","p","l","y">>
ElabMethodR(m) == m @@ [hids |-> HandlerIds(m)]
HandlerRow(p, h) ==
    [h |-> h, const |-> Str(ReplyConst(NameChars(h))), on |-> ReplyOn(p, h), payload |-> PayloadSig(p, h), data |-> DataMode(p, h),
     succ |-> IF SuccM(p, h) = 0 THEN "" ELSE p.methods[SuccM(p, h)].name,
     err  |-> IF ErrM(p, h) = 0 THEN "" ELSE p.methods[ErrM(p, h)].name,
     alw  |-> IF AlwM(p, h) = 0 THEN "" ELSE p.methods[AlwM(p, h)].name]
LongPayload(p) == p.id \in {"D3", "PB1", "PN2", "SHs"}
StimOf(p) ==
    IF Legacy(p)
    THEN SetToSeq({[op |-> "reply", h |-> "?", recv |-> "", result |-> res, events |-> ev, class |-> c, val |-> 0, pay |-> "built"] :
                      res \in {"ok", "err"}, ev \in {0, 2}, c \in {"absent", "good"}})
    ELSE
    SetToSeq(
         {[op |-> "build", h |-> h, recv |-> r, result |-> "", events |-> 0, class |-> "", val |-> 0, pay |-> "built"] : h \in AllHandlers(p), r \in Recvs}
    \* value tuple 2: long payloads (100 KiB: bytes, text, a struct holding a long text) through the builders of a few programs, and
    \* the replies that bring them back
    \cup {[op |-> "build", h |-> h, recv |-> r, result |-> "", events |-> 0, class |-> "", val |-> 2, pay |-> "built"] :
              h \in (IF LongPayload(p) THEN AllHandlers(p) ELSE {}), r \in Recvs}
    \cup {[op |-> "reply", h |-> h, recv |-> "wasm", result |-> res, events |-> 0, class |-> "good", val |-> 2, pay |-> "built"] :
              h \in (IF LongPayload(p) THEN AllHandlers(p) ELSE {}), res \in {"ok", "err"}}
    \* replies that did not come from the builder: the right id, an empty or a garbage payload
    \cup {[op |-> "reply", h |-> h, recv |-> "wasm", result |-> res, events |-> 0, class |-> "absent", val |-> 0, pay |-> py] :
              \* (when the methods of a name disagree on the raw marker, which bytes decode is not specified: left out)
              h \in {x \in AllHandlers(p) : Cardinality(PayloadSigs(p, x)) = 1}, res \in {"ok", "err"}, py \in {"empty", "garbage"}}
    \cup UNION {{[op |-> "reply", h |-> h, recv |-> "wasm", result |-> res, events |-> ev, class |-> c, val |-> IF ev = 0 THEN 0 ELSE 1, pay |-> "built"] :
                    res \in {"ok", "err"}, ev \in {0, 2},
                    c \in IF DataMode(p, h) = "none" THEN {"absent", "good"} ELSE DataClasses} : h \in AllHandlers(p)}
    \cup {[op |-> "reply", h |-> "?", recv |-> "", result |-> res, events |-> 0, class |-> "absent", val |-> 0, pay |-> "built"] : res \in {"ok", "err"}})
EmitProg(p) == [id |-> p.id, family |-> p.family, valid |-> ValidTable(p), decoy |-> (Legacy(p) /\ p.decoy), stdret |-> (Legacy(p) /\ p.stdret),
                methods |-> [i \in 1..Len(p.methods) |-> ElabMethodR(p.methods[i])],
                handlers |-> SetToSeq({HandlerRow(p, h) : h \in AllHandlers(p)}),
                stim |-> StimOf(p),
                chain |-> ChainStimOf(p)]       \* transactions for the chain corpus (Chain.tla)
EmitTables ==
    /\ TLCGet("stats").generated > 0
    /\ ndJsonSerialize(IOEnv.VERIF_OUT, [i \in 1..Len(Progs) |-> EmitProg(Progs[i])])
    /\ ndJsonSerialize(IOEnv.VERIF_OUT2, [i \in 1..Len(TableSeq) |->
            [id |-> TableProg(i).id, family |-> "tables", valid |-> ValidTable(TableProg(i)) /\ NoDuplicateHandlerInOneMethod(TableProg(i)),
             methods |-> [j \in 1..Len(TableSeq[i]) |-> ElabMethodR(TableSeq[i][j])]]])
    /\ PrintT(<<"TABLES", Len(TableSeq), "COMPILED", Len(Progs)>>)
=============================================================================
