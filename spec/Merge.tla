------------------------------- MODULE Merge -------------------------------
(***************************************************************************)
(* The overlap check `sylvia::utils::assert_no_intersection` as a state    *)
(* machine: one action per loop iteration phase of the Rust function       *)
(*   init_states -> (should_end? -> get_next_alphabetical_index ->         *)
(*                   verify_no_collissions -> advance cursor)*             *)
(* Strings are abstract, totally ordered tokens (naturals): the function   *)
(* only uses byte-order comparison (`konst::cmp_str`) and equality.        *)
(* Indices are 1-based here (0-based in Rust).                             *)
(*                                                                         *)
(* Property C05 (scan part): for every tuple of sorted duplicate-free      *)
(* lists, the function panics iff two lists share an element; it always    *)
(* terminates and never indexes out of bounds.                             *)
(***************************************************************************)
EXTENDS Naturals, Sequences, FiniteSets

VARIABLES L,         \* the argument: a sequence (N arrays) of sequences of tokens
          st,        \* per-array cursor: [k |-> "ongoing"|"finished"|"empty", i |-> position]
          idx,       \* the array selected in this iteration (0 = none yet)
          outcome,   \* "running" | "ok" | "panic" | "oob" | "unreachable"
          pc         \* "init" | "test" | "pick" | "verify" | "advance" | "done"

mvars == <<L, st, idx, outcome, pc>>

Ongoing(i)  == [k |-> "ongoing",  i |-> i]
Finished(i) == [k |-> "finished", i |-> i]
EmptySt     == [k |-> "empty",    i |-> 0]

N == Len(L)

IsSortedStrict(s)  == \A i \in 1..(Len(s) - 1) : s[i] < s[i + 1]     \* strict: sorted and duplicate free
RangeOf(s)   == {s[i] : i \in 1..Len(s)}
Intersects(ls) == \E i, j \in 1..Len(ls) : i # j /\ RangeOf(ls[i]) \cap RangeOf(ls[j]) # {}

(* init_states: Ongoing(first) everywhere, Empty for empty arrays *)
InitStates(ls) == [i \in 1..Len(ls) |-> IF Len(ls[i]) = 0 THEN EmptySt ELSE Ongoing(1)]

(* should_end: no array is Ongoing *)
ShouldEnd(s) == \A i \in 1..Len(s) : s[i].k # "ongoing"

(* get_next_alphabetical_index: a left-to-right scan keeping `output_index` *)
RECURSIVE PickFrom(_, _, _, _)
PickFrom(ls, s, i, out) ==
    IF i > Len(ls) THEN out
    ELSE IF s[i].k = "ongoing"
         THEN IF s[out].k = "ongoing"
              THEN IF ls[out][s[out].i] > ls[i][s[i].i]
                   THEN PickFrom(ls, s, i + 1, i)
                   ELSE PickFrom(ls, s, i + 1, out)
              ELSE PickFrom(ls, s, i + 1, i)
         ELSE PickFrom(ls, s, i + 1, out)
NextAlphabetical(ls, s) == PickFrom(ls, s, 1, 1)

(* every array access the Rust code performs in `verify_no_collissions` *)
HasCursor(c) == c.k \in {"ongoing", "finished"}
AccessOk(ls, s, i) == HasCursor(s[i]) => s[i].i \in 1..Len(ls[i])

Collides(ls, s, x) ==
    \E i \in 1..Len(ls) :
        /\ i # x
        /\ HasCursor(s[i])
        /\ s[x].k = "ongoing"
        /\ ls[i][s[i].i] = ls[x][s[x].i]

-----------------------------------------------------------------------------
MInit(ls) ==
    /\ L = ls
    /\ st = <<>>
    /\ idx = 0
    /\ outcome = "running"
    /\ pc = "init"

DoInit ==
    /\ pc = "init"
    /\ st' = InitStates(L)
    /\ pc' = "test"
    /\ UNCHANGED <<L, idx, outcome>>

Test ==
    /\ pc = "test"
    /\ IF ShouldEnd(st)
       THEN pc' = "done" /\ outcome' = "ok"
       ELSE pc' = "pick" /\ UNCHANGED outcome
    /\ UNCHANGED <<L, st, idx>>

Pick ==
    /\ pc = "pick"
    /\ idx' = NextAlphabetical(L, st)
    /\ pc' = "verify"
    /\ UNCHANGED <<L, st, outcome>>

Verify ==
    /\ pc = "verify"
    /\ IF \E i \in 1..N : ~AccessOk(L, st, i)
       THEN pc' = "done" /\ outcome' = "oob"
       ELSE IF Collides(L, st, idx)
            THEN pc' = "done" /\ outcome' = "panic"
            ELSE pc' = "advance" /\ UNCHANGED outcome
    /\ UNCHANGED <<L, st, idx>>

Advance ==
    /\ pc = "advance"
    /\ IF st[idx].k = "ongoing"
       THEN /\ st' = [st EXCEPT ![idx] = IF Len(L[idx]) = st[idx].i
                                         THEN Finished(st[idx].i)
                                         ELSE Ongoing(st[idx].i + 1)]
            /\ pc' = "test"
            /\ UNCHANGED outcome
       ELSE /\ pc' = "done" /\ outcome' = "unreachable" /\ UNCHANGED st
    /\ UNCHANGED <<L, idx>>

MNext == DoInit \/ Test \/ Pick \/ Verify \/ Advance

-----------------------------------------------------------------------------
(* Properties *)
Precondition == \A i \in 1..N : IsSortedStrict(L[i])

MergeCorrect ==
    (pc = "done" /\ Precondition) =>
        /\ outcome \in {"ok", "panic"}
        /\ (outcome = "panic") <=> Intersects(L)

InBounds ==
    (pc \in {"pick", "verify", "advance"} /\ Precondition) =>
        \A i \in 1..N : AccessOk(L, st, i)

SelectedIsOngoing ==
    (pc \in {"verify", "advance"}) => (idx \in 1..N /\ st[idx].k = "ongoing")

(* progress measure: sum of remaining elements strictly decreases per iteration *)
Remaining ==
    LET R[i \in 0..N] ==
        IF i = 0 THEN 0
        ELSE R[i - 1] + (CASE st[i].k = "ongoing"  -> Len(L[i]) - st[i].i + 1
                           [] OTHER -> 0)
    IN R[N]

Terminates == <>(pc = "done")

(* functional summary used by trace validation: what the call does *)
Verdict(ls) == IF Intersects(ls) THEN "panic" ELSE "ok"
=============================================================================
