---------------------------- MODULE Trace_Reply ----------------------------
(***************************************************************************)
(* Trace validation of the compiled reply corpus against ReplyRT.tla /     *)
(* Reply.tla: ids, sub-message builders, reply dispatch, data extraction.  *)
(***************************************************************************)
EXTENDS Reply, Json, IOUtils, TraceCommon

Progs == ndJsonDeserialize(IOEnv.VERIF_PROGS)
Rec   == ndJsonDeserialize(IOEnv.VERIF_TRACE)

VARIABLES pi, st, sub, rep, out,
          l,
          fx      \* logged context: ids, last built sub-message, the reply in flight
INSTANCE ReplyRT
tvars == <<pi, st, sub, rep, out, l, fx>>

E == Rec[l]
IsEvent(name) == l <= Len(Rec) /\ Rec[l].ev = name /\ l' = l + 1
ProgIx(id) == CHOOSE i \in 1..Len(Progs) : Progs[i].id = id
NoFx == [ids |-> <<>>, built |-> <<>>, builtseq |-> -1, reply |-> <<>>]

TInit == l = 1 /\ pi = 1 /\ st = "idle" /\ sub = NoSub /\ rep = NoRep /\ out = NoOut /\ fx = NoFx /\ TLCSet(1, 1)

TrReset ==
    /\ IsEvent("Reset")
    /\ pi' = ProgIx(E.prog) /\ st' = "idle" /\ sub' = NoSub /\ rep' = NoRep /\ out' = NoOut /\ fx' = NoFx
    /\ Chk("C18", "a_program_that_compiles_has_a_valid_reply_table", l, ValidTable(Progs[ProgIx(E.prog)]))

(* ---- the program was (or was not) built by rustc with the real macros ------- *)
TrBuild ==
    /\ IsEvent("Build") /\ st = "idle"
    /\ Chk("C14", "a_valid_table_compiles_whatever_the_declaration_order", l, E.verdict = "ok")
    /\ UNCHANGED <<pi, st, sub, rep, out, fx>>

(* ---- ids ------------------------------------------------------------- *)
IdOfH(ids, h) == IF \E i \in 1..Len(ids) : ids[i].h = h THEN ids[CHOOSE i \in 1..Len(ids) : ids[i].h = h].id ELSE "?"
TrReplyIds ==
    /\ IsEvent("ReplyIds") /\ st = "idle"
    /\ Chk("C08", "one_id_per_handler_name", l, {E.ids[i].h : i \in 1..Len(E.ids)} = AllHandlers(Pr) /\ Len(E.ids) = Cardinality(AllHandlers(Pr)))
    /\ Chk("C08", "distinct_handler_names_get_distinct_ids", l, \A i, j \in 1..Len(E.ids) : i # j => E.ids[i].id # E.ids[j].id)
    /\ fx' = [fx EXCEPT !.ids = E.ids]
    /\ UNCHANGED <<pi, st, sub, rep, out>>

(* ---- builders --------------------------------------------------------- *)
PayloadEncodingOk(e, sig) ==
    IF sig = "raw" THEN Len(e.pay_vals) = 1 /\ e.pay_vals[1] = [t |-> "s", v |-> e.payload]       \* byte for byte
    ELSE IF sig \in {"t1", "bin"} THEN Len(e.pay_vals) = 1 /\ e.payload_json = e.pay_vals[1]
    ELSE e.payload_json = [t |-> "a", e |-> e.pay_vals]
TrSubMsgBuilt ==
    /\ IsEvent("SubMsgBuilt") /\ st \in {"idle", "dispatched", "probed"}
    /\ Chk("C08", "builder_exists_for_every_handler_name_and_succeeds", l, E.verdict = "ok" /\ E.h \in AllHandlers(Pr))
    /\ IF E.verdict = "ok" /\ E.h \in AllHandlers(Pr)
       THEN /\ Chk("C08", "builder_stamps_the_handlers_id", l, E.id = IdOfH(fx.ids, E.h))
            /\ Chk("C08", "reply_requested_for_exactly_the_outcomes_that_have_a_method", l, E.reply_on = ReplyOn(Pr, E.h))
            /\ Chk("C08", "wrapped_message_and_gas_limit_kept", l,
                   E.msg_eq /\ (E.recv = "submsg_gas" => E.gas_limit = "77") /\ (E.recv # "submsg_gas" => E.gas_limit = ""))
            /\ Chk("C08", "payload_is_the_encoding_of_the_arguments", l, \E sig \in PayloadSigs(Pr, E.h) : PayloadEncodingOk(E, sig))
       ELSE TRUE
    /\ fx' = [fx EXCEPT !.built = E, !.builtseq = E.seq]
    /\ st' = "idle" /\ sub' = NoSub /\ rep' = NoRep /\ out' = NoOut
    /\ UNCHANGED pi

(* ---- a reply reaches the dispatcher ------------------------------------ *)
TrReply ==
    /\ IsEvent("Reply") /\ st \in {"idle", "dispatched", "probed"}
    /\ LET sameId == fx.builtseq = E.seq /\ E.h # "?"
           fromBuilder == sameId /\ E.pay = "built"       \* (with another payload it is not the chain's reply to the built sub-message)
       IN
       /\ Chk("BIND", "reply_carries_the_built_id_and_payload", l,
              (sameId => E.id = fx.built.id) /\ (fromBuilder => E.payload = fx.built.payload))
       /\ rep' = [h |-> E.h, result |-> E.result, class |-> E.class, pay |-> E.pay]
       /\ sub' = IF fromBuilder /\ ChainReplies(fx.built.reply_on, E.result)
                 THEN [h |-> E.h, recv |-> "wasm", reply_on |-> fx.built.reply_on, gas_kept |-> TRUE] ELSE NoSub
    /\ st' = "replied" /\ out' = NoOut
    /\ fx' = [fx EXCEPT !.reply = E]
    /\ UNCHANGED pi

(* ---- a reply handler reports that it runs ------------------------------- *)
MethodIx(p, name) == IF \E i \in 1..Len(p.methods) : p.methods[i].name = name
                     THEN CHOOSE i \in 1..Len(p.methods) : p.methods[i].name = name ELSE 0
ObservedExtract(mode, e) ==
    CASE mode = "none" -> "nodata"
      [] mode \in {"opt", "rawopt", "instopt"} -> IF e.data = [t |-> "z", v |-> "null"] THEN "none" ELSE "value"
      [] OTHER -> "value"
GoodNested == [t |-> "o", f |-> <<[k |-> "a", v |-> [t |-> "n", v |-> "1"]], [k |-> "b", v |-> [t |-> "s", v |-> "n"]]>>]
ValueOk(mode, e, r) ==      \* the value handed to the data parameter is what the documented decoding yields
    CASE ObservedExtract(mode, e) # "value" -> TRUE
      [] mode \in {"raw", "rawopt"} -> e.data = [t |-> "s", v |-> r.data]
      [] mode \in {"plain", "opt", "plainO"} /\ r.class = "good" -> e.data = GoodNested
      [] mode \in {"inst", "instopt"} /\ r.class = "good_inst" -> e.data.t = "inst" /\ e.data.addr = "addr1"
      [] OTHER -> TRUE
EvTypes(n) == [i \in 1..n |-> "ev" \o ToString(i - 1)]
(* the events of the sub-message whole: type and attributes, among them one with a reserved (underscore-prefixed) key *)
EvFull(n) == [i \in 1..n |-> [ty |-> "ev" \o ToString(i - 1),
                              attrs |-> << <<"_contract_address", "c" \o ToString(i - 1)>>, <<"k", "v" \o ToString(i - 1)>> >>]]
SecondOk(m, e, r) ==
    CASE m.on = "success" -> e.second.kind = "none"
      [] m.on = "error"   -> e.second.kind = "error" /\ e.second.text = r.err_text
      [] OTHER            -> /\ e.second.kind = "result" /\ e.second.ok = (r.result = "ok") /\ (r.result = "err" => e.second.text = r.err_text)
                             \* the *full* result: events, message responses and data of a success are all there
                             /\ (r.result = "ok" => /\ e.second.full.events = EvTypes(r.events) /\ e.second.full.msgresp = r.msgresp
                                                    /\ e.second.full.data = r.data /\ e.second.full.has_data = (r.class # "absent"))
CtxReplyOk(m, e, r) ==
    /\ e.ctx.gas_used = r.gas_used
    /\ e.ctx.height = r.env.height /\ e.ctx.contract = r.env.contract /\ e.ctx.token = r.env.token
    /\ e.ctx.events = (IF m.on = "success" THEN EvTypes(r.events) ELSE <<>>)
    /\ e.ctx.msg_responses = (IF m.on = "success" THEN r.msgresp ELSE 0)
LegacyHandlerOk(e, r) ==      \* the single reply method of a legacy program is handed the reply as it arrived
    /\ e.name = Pr.methods[1].name /\ e.second.kind = "reply"
    /\ e.second.id = r.id /\ e.second.payload = r.payload /\ e.second.gas_used = r.gas_used
    /\ e.second.ok = (r.result = "ok") /\ e.second.events = (IF r.result = "ok" THEN r.events ELSE 0)
    /\ e.second.data = (IF r.result = "ok" THEN r.data ELSE "") /\ (r.result = "err" => e.second.text = r.err_text)
    /\ e.ctx.height = r.env.height /\ e.ctx.contract = r.env.contract /\ e.ctx.token = r.env.token
TrLegacyReplyHandler ==
    /\ IsEvent("ReplyHandler") /\ st \in {"replied", "handled"} /\ Legacy(Pr)
    /\ Chk("C06", "a_reply_runs_the_reply_method_once", l, st = "replied")
    /\ Chk("C04", "a_reply_runs_a_reply_handler_and_no_handler_of_another_kind", l, E.name = Pr.methods[1].name)
    /\ Chk("C06", "reply_entry_point_hands_the_whole_reply_to_the_reply_method", l, LegacyHandlerOk(E, fx.reply))
    /\ out' = [kind |-> "method", m |-> 1, extracted |-> ""]
    /\ st' = "handled"
    /\ UNCHANGED <<pi, sub, rep, fx>>
TrLegacyReplyReturn ==
    /\ IsEvent("ReplyReturn") /\ st \in {"replied", "handled"} /\ Legacy(Pr)
    /\ Chk("C06", "every_reply_reaches_the_reply_method", l, st = "handled")
    /\ LET m == Pr.methods[1] IN
       Chk("C06", "reply_entry_point_returns_the_methods_outcome", l,
           IF m.outcome = "ok" THEN E.verdict = "ok" /\ E.attrs = << <<"h", m.name>>, <<"code", "7">> >> /\ E.mark = m.name
           ELSE E.verdict = "err" /\ E.err.class = "handler" /\ E.err.code = 7)
    /\ out' = out
    /\ st' = "dispatched"
    /\ UNCHANGED <<pi, sub, rep, fx>>

TrReplyHandler ==
    /\ IsEvent("ReplyHandler") /\ st \in {"replied", "handled"} /\ ~Legacy(Pr)
    /\ Chk("C07", "a_reply_runs_at_most_one_handler", l, st = "replied")
    /\ LET known == rep.h \in AllHandlers(Pr)
           r == IF known THEN Route(Pr, rep.h, rep.result) ELSE [kind |-> "unknown_id", m |-> 0, second |-> "none"]
           mi == MethodIx(Pr, E.name)
       IN /\ Chk("C07", "unknown_id_runs_no_handler", l, known)
          /\ Chk("C07", "the_method_declared_for_this_handler_and_outcome_runs", l, r.kind = "method" /\ r.m = mi)
          \* (C09: data the success method cannot be given fails the reply -- no method of the contract runs on it, not the success
          \*  method and not another one of the same handler name)
          /\ Chk("C09", "no_method_runs_on_a_reply_whose_data_cannot_be_extracted", l,
                 (known /\ r.kind = "method" /\ r.second = "data") => \E x \in Extract(DataMode(Pr, rep.h), rep.class) : HandlerRuns(x))
          /\ IF mi # 0
             THEN LET m == Pr.methods[mi] IN
                  /\ Chk("C07", "context_carries_gas_and_for_success_events", l, CtxReplyOk(m, E, fx.reply))
                  /\ Chk("C07", "second_parameter_is_error_text_or_full_result_as_declared", l, SecondOk(m, E, fx.reply))
                  /\ Chk("C08", "payload_parameters_receive_the_values_given_to_the_builder", l,
                         (fx.builtseq = fx.reply.seq /\ rep.pay = "built") => E.payload = fx.built.pay_vals)
                  /\ Chk("C08", "a_method_runs_only_on_a_payload_its_parameters_decode_from", l, PayloadDecodes(Pr, rep.h, rep.pay))
                  /\ (m.on = "success" =>
                        /\ Chk("C09", "handler_runs_only_on_data_it_can_be_given", l,
                               ObservedExtract(m.data, E) \in Extract(m.data, rep.class))
                        /\ Chk("C09", "data_parameter_holds_the_documented_decoding", l, ValueOk(m.data, E, fx.reply)))
                  /\ out' = [kind |-> "method", m |-> mi, extracted |-> IF m.on = "success" THEN ObservedExtract(m.data, E) ELSE ""]
             ELSE out' = [kind |-> "method", m |-> 0, extracted |-> ""]
    /\ st' = "handled"
    /\ UNCHANGED <<pi, sub, rep, fx>>

(* ---- the dispatcher returns ---------------------------------------------- *)
TrReplyReturn ==
    /\ IsEvent("ReplyReturn") /\ st \in {"replied", "handled"} /\ ~Legacy(Pr)
    /\ LET known == rep.h \in AllHandlers(Pr)
           r == IF known THEN Route(Pr, rep.h, rep.result) ELSE [kind |-> "unknown_id", m |-> 0, second |-> "none"]
           rp == fx.reply
       IN IF st = "handled"
          THEN /\ (out.m # 0 =>
                     LET m == Pr.methods[out.m] IN
                     /\ Chk("C07", "dispatcher_returns_the_handlers_own_outcome", l,
                            IF m.outcome = "ok"
                            THEN E.verdict = "ok" /\ E.attrs = << <<"h", m.name>>, <<"code", "7">> >> /\ E.mark = m.name
                            ELSE E.verdict = "err" /\ E.err.class = "handler" /\ E.err.code = 7))
               /\ out' = out
          ELSE \* no handler ran
               /\ Chk("C07", "an_id_of_no_handler_is_an_error", l, ~known => E.verdict = "err")
               /\ Chk("C07", "uncovered_success_passes_events_and_data_through", l,
                      r.kind = "passthrough" =>
                         /\ E.verdict = "ok" /\ E.events = EvTypes(rp.events) /\ E.events_full = EvFull(rp.events) /\ E.attrs = <<>> /\ E.msgs = 0
                         /\ E.has_data = (rp.class # "absent") /\ E.data = rp.data)
               /\ Chk("C07", "uncovered_failure_returns_that_error", l,
                      r.kind = "forward_error" => (E.verdict = "err" /\ E.err_mentions_sub_error))
               /\ Chk("C07", "a_covered_outcome_runs_its_method", l,
                      r.kind = "method" => (\/ ~PayloadDecodes(Pr, rep.h, rep.pay)
                                            \/ (r.second = "data" /\ \E x \in Extract(DataMode(Pr, rep.h), rep.class) : ~HandlerRuns(x))))
               /\ Chk("C09", "missing_or_undecodable_data_fails_with_an_error", l,
                      (r.kind = "method" /\ r.second = "data") => E.verdict = "err")
               /\ Chk("C08", "an_undecodable_payload_fails_with_an_error", l,
                      (r.kind = "method" /\ ~PayloadDecodes(Pr, rep.h, rep.pay)) => E.verdict = "err")
               /\ Chk("C07", "nothing_touches_storage_when_no_handler_runs", l, E.mark = "")
               /\ out' = [kind |-> IF ~known THEN "unknown_id"
                                    ELSE IF r.kind = "method" THEN (IF PayloadDecodes(Pr, rep.h, rep.pay) THEN "data_error" ELSE "payload_error")
                                    ELSE r.kind,
                          m |-> r.m, extracted |-> IF r.kind = "method" THEN "missing" ELSE ""]
    /\ st' = "dispatched"
    /\ UNCHANGED <<pi, sub, rep, fx>>

(* ---- C04: documents delivered to the *other* entry points of a reply program (execute, query, sudo), named after its reply methods  *)
(* ---- and handler names and carrying a reply as their body: none of them may run a reply method                                       *)
ReplyMethodNames == {Pr.methods[i].name : i \in 1..Len(Pr.methods)}
TrProbe ==
    /\ IsEvent("Probe") /\ st \in {"idle", "dispatched", "probed"}
    /\ st' = "probing" /\ sub' = NoSub /\ rep' = NoRep /\ out' = NoOut
    /\ UNCHANGED <<pi, fx>>
TrProbeHandler ==       \* a handler reports that it runs while a probe is in flight
    /\ IsEvent("ReplyHandler") /\ st = "probing"
    /\ Chk("C04", "a_document_sent_to_another_entry_point_runs_no_reply_handler", l, E.name \notin ReplyMethodNames)
    /\ UNCHANGED <<pi, st, sub, rep, out, fx>>
TrProbeReturn ==
    /\ IsEvent("ProbeReturn") /\ st = "probing"
    \* the only messages a reply program has at these entry points are `fire` (execute) and, in L3, the sudo handler called `reply`
    /\ Chk("C04", "no_message_of_another_kind_is_named_after_a_reply_method", l,
           E.decoded => (E.key = "fire" \/ (Legacy(Pr) /\ Pr.decoy /\ E.kind = "sudo" /\ E.key = "reply")))
    /\ st' = "probed"
    /\ UNCHANGED <<pi, sub, rep, out, fx>>

(* ---- generated code panicked while building a sub-message or dispatching a reply (data, not a tool failure) ---- *)
TrPanic ==
    /\ IsEvent("Panic")
    /\ Chk(IF E.where = "build" THEN "C08" ELSE "C07", "generated_code_does_not_panic", l, FALSE)
    \* (undecodable data "always fails with an error": a panic while a reply with data is dispatched is also C09's business)
    /\ Chk("C09", "generated_code_does_not_panic", l, ~(E.where = "dispatch_reply" /\ st = "replied" /\ rep.result = "ok" /\ rep.class # "absent"))
    /\ st' = "idle" /\ sub' = NoSub /\ rep' = NoRep /\ out' = NoOut
    /\ UNCHANGED <<pi, fx>>

TStep == TrProbe \/ TrProbeHandler \/ TrProbeReturn \/ TrLegacyReplyHandler \/ TrLegacyReplyReturn \/ TrPanic \/ TrReset \/ TrBuild \/ TrReplyIds \/ TrSubMsgBuilt \/ TrReply \/ TrReplyHandler \/ TrReplyReturn
InvariantsHold ==
    /\ Chk("C07", "invariant_C07_DeclaredMethodRuns", l, C07_DeclaredMethodRuns')
    /\ Chk("C07", "invariant_C07_UncoveredOutcomeActsAsNoReply", l, C07_UncoveredOutcomeActsAsNoReply')
    /\ Chk("C07", "invariant_C07_UnknownIdIsError", l, C07_UnknownIdIsError')
    /\ Chk("C08", "invariant_C08_RequestedRepliesAreHandled", l, C08_RequestedRepliesAreHandled')
    /\ Chk("C06", "invariant_C06_LegacyReplyAlwaysRuns", l, C06_LegacyReplyAlwaysRuns')
TNext == TStep /\ InvariantsHold /\ TLCSet(1, l')
TSpec == TInit /\ [][TNext]_tvars

TraceAccepted ==
    LET reached == TLCGet(1) IN
    IF reached = Len(Rec) + 1 THEN TRUE
    ELSE Print(<<"UNMATCHED", reached, Rec[reached]>>, FALSE)
=============================================================================
