CONSTANTS
  Alphabet = {"a", "b", "1", "_"}
  NameLen = 5
  PerProg = 27
  SmallNames <- SmallNamesThorough
  Ifaces = 2
  BuilderSets = 3
  Variant <- VariantFast
  Wire <- WireFast
  Near <- NearFast
INIT Init
NEXT Next
INVARIANTS C10_RemoteRoutesBack C03_Routing C05_NoSharedName C04_KindSeparation C02_ExactlyOne C06_OnlyEmitted C06_OverrideReachesUser C06_OverrideIsLocal RejectedIffInvalid
POSTCONDITION EmitCorpus
CHECK_DEADLOCK FALSE
