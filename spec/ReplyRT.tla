------------------------------ MODULE ReplyRT ------------------------------
(***************************************************************************)
(* The reply machine: a sub-message is built for a handler name, the chain *)
(* runs it and replies for the requested outcomes (or a reply reaches the  *)
(* dispatcher directly), the dispatcher routes it.  Programs are reply     *)
(* tables (Reply.tla).                                                     *)
(***************************************************************************)
EXTENDS Reply

CONSTANT Progs       \* sequence of reply programs

Recvs == {"submsg", "submsg_gas", "wasm", "cosmos_bank", "cosmos_wasm"}
LongBadJson == {"bad_json_u0", "bad_json_u1", "bad_json_u2", "bad_json_u3"}       \* undecodable JSON that makes for a long error text
DataClasses == {"absent", "good", "good_inst", "empty_env", "bad_env", "bad_json", "bare_json"} \cup LongBadJson

VARIABLES pi,      \* program (index into Progs)
          st,      \* "idle" | "built" | "replied" | "dispatched"
          sub,     \* the sub-message built: [h, recv, id, reply_on, gas_kept]
          rep,     \* the reply delivered: [h (or "?"), result, class, pay]
                   \*   pay: "built" (the payload the builder encoded) | "empty" | "garbage" (a reply that did not come from the builder)
          out      \* what the dispatcher did: [kind, m, extracted]
rvars == <<pi, st, sub, rep, out>>
Pr == Progs[pi]

NoSub == [h |-> "", recv |-> "", reply_on |-> "", gas_kept |-> TRUE]
NoRep == [h |-> "", result |-> "", class |-> "", pay |-> "built"]
(* a raw payload parameter takes any bytes; typed parameters need the encoding the builder produces *)
PayloadDecodes(p, h, pay) == pay = "built" \/ \A sig \in PayloadSigs(p, h) : sig = "raw"
NoOut == [kind |-> "", m |-> 0, extracted |-> ""]

BuildSubMsg(h, recv) ==
    /\ st = "idle" /\ h \in AllHandlers(Pr)
    /\ sub' = [h |-> h, recv |-> recv, reply_on |-> ReplyOn(Pr, h), gas_kept |-> TRUE]
    /\ st' = "built"
    /\ UNCHANGED <<pi, rep, out>>

(* the chain runs the sub-message and replies only for the outcomes that were asked for *)
ChainReplies(on, result) == on = "always" \/ (on = "success" /\ result = "ok") \/ (on = "error" /\ result = "err")
Outcome(result, class) ==
    /\ st = "built"
    /\ ChainReplies(sub.reply_on, result)
    /\ rep' = [h |-> sub.h, result |-> result, class |-> IF result = "ok" THEN class ELSE "absent", pay |-> "built"]
    /\ st' = "replied"
    /\ UNCHANGED <<pi, sub, out>>
(* a reply can also reach the dispatcher directly (any id, any outcome): the dispatcher must cope *)
Inject(h, result, class, pay) ==
    /\ st = "idle"
    /\ rep' = [h |-> h, result |-> result, class |-> IF result = "ok" THEN class ELSE "absent", pay |-> pay]
    /\ st' = "replied"
    /\ UNCHANGED <<pi, sub, out>>

ReplyDispatch ==
    /\ st = "replied"
    /\ IF Legacy(Pr)      \* no dispatch by id: the single reply method gets every reply
       THEN out' = [kind |-> "method", m |-> 1, extracted |-> ""]
       ELSE IF rep.h \notin AllHandlers(Pr)
       THEN out' = [kind |-> "unknown_id", m |-> 0, extracted |-> ""]
       ELSE LET r == Route(Pr, rep.h, rep.result) IN
            \* an outcome no method covers is passed through / forwarded whatever the payload is: nothing decodes it
            IF r.kind = "method" /\ ~PayloadDecodes(Pr, rep.h, rep.pay)
            THEN out' = [kind |-> "payload_error", m |-> r.m, extracted |-> ""]
            ELSE IF r.kind = "method" /\ r.second = "data"
            THEN \E x \in Extract(DataMode(Pr, rep.h), rep.class) :
                    out' = [kind |-> IF HandlerRuns(x) THEN "method" ELSE "data_error", m |-> r.m, extracted |-> x]
            ELSE out' = [kind |-> r.kind, m |-> r.m, extracted |-> ""]
    /\ st' = "dispatched"
    /\ UNCHANGED <<pi, sub, rep>>

(* C07: the method that runs was declared for this handler name and this outcome (or for always) *)
C07_DeclaredMethodRuns ==
    (st = "dispatched" /\ out.kind = "method" /\ ~Legacy(Pr)) =>
        /\ out.m \in MethodsFor(Pr, rep.h)
        /\ Pr.methods[out.m].on \in {IF rep.result = "ok" THEN "success" ELSE "error", "always"}
        /\ Pr.methods[out.m].on = "always" =>
              MethodsOn(Pr, rep.h, IF rep.result = "ok" THEN "success" ELSE "error") = {}
C07_UncoveredOutcomeActsAsNoReply ==
    (st = "dispatched" /\ rep.h \in AllHandlers(Pr)) =>
        /\ out.kind = "passthrough" =>
              rep.result = "ok" /\ MethodsOn(Pr, rep.h, "success") = {} /\ MethodsOn(Pr, rep.h, "always") = {}
        /\ out.kind = "forward_error" =>
              rep.result = "err" /\ MethodsOn(Pr, rep.h, "error") = {} /\ MethodsOn(Pr, rep.h, "always") = {}
C07_UnknownIdIsError == (st = "dispatched" /\ rep.h \notin AllHandlers(Pr) /\ ~Legacy(Pr)) => out.kind = "unknown_id"
(* C06: without the `replies` feature the reply entry point forwards every reply to the reply method *)
C06_LegacyReplyAlwaysRuns == (st = "dispatched" /\ Legacy(Pr)) => (out.kind = "method" /\ out.m = 1)
(* C08: a reply requested through the builder always finds a method: nothing is requested in vain *)
C08_RequestedRepliesAreHandled ==
    (st = "dispatched" /\ sub.h # "") => out.kind \in {"method", "data_error"}
(* C07/C08: a method runs only on a payload its parameters can be decoded from; an uncovered outcome never depends on the payload *)
C07_UncoveredIgnoresPayload ==
    (st = "dispatched" /\ rep.h \in AllHandlers(Pr) /\ ~Legacy(Pr) /\ Route(Pr, rep.h, rep.result).kind # "method") =>
        out.kind = Route(Pr, rep.h, rep.result).kind
C08_MethodNeedsDecodablePayload ==
    (st = "dispatched" /\ out.kind = "method" /\ ~Legacy(Pr)) => PayloadDecodes(Pr, rep.h, rep.pay)
(* C09: the handler is never invoked on undecodable or missing mandatory data *)
C09_NoHandlerOnBadData ==
    (st = "dispatched" /\ out.kind = "data_error") => out.extracted \in {"missing", "decode_err"}

=============================================================================
