CONSTANTS
  MaxLen = 9
INIT Init
NEXT Next
INVARIANTS C12_ErrorChangesNothing C12_CountMatchesHistory C12_HeightIsSumOfMoves EmitHistory
CHECK_DEADLOCK FALSE
