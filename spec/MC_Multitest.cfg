CONSTANTS
  MaxLen = 9
INIT Init
NEXT Next
INVARIANTS C12_ErrorChangesNothing C12_CountMatchesHistory EmitHistory
CHECK_DEADLOCK FALSE
