------------------------------- MODULE Static -------------------------------
(***************************************************************************)
(* Static semantics of the three macros on the *shape of the expansion*:   *)
(* which entry points exist (C06), what is re-emitted of the user's item   *)
(* (C13), where forwarded attributes land (C17), which type parameters and *)
(* bounds the generated message types carry (C15).                         *)
(*                                                                         *)
(* A source item is described syntactically (it is rendered to Rust text   *)
(* verbatim by harness/gen/static.py):                                     *)
(*   Attr   [p, t]            #[p(t)]   (t = "" : #[p];  t = "= .." : #[p = ..]) *)
(*   Param  [n, ty, attrs, mentions]    mentions: type parameters in ty    *)
(*   Member [name, vis, attrs, kind, ctx, params, ret, body, retm]         *)
(*          kind = "" for a helper method without sv::msg                  *)
(*   Item   [id, family, macro, mattr, attrs, generics, wheres, assoc,     *)
(*           self_ty, members, twin]                                       *)
(*          wheres: seq of [text, mentions]                                *)
(***************************************************************************)
EXTENDS Naturals, Sequences, FiniteSets, SequencesExt, Functions, TLC

AllKinds == {"instantiate", "exec", "query", "sudo", "migrate", "reply"}
EpName(k) == IF k = "exec" THEN "execute" ELSE k

A(p, t) == [p |-> p, t |-> t]

(* the framework's own attributes *)
SvPaths == {"sv::custom", "sv::error", "sv::messages", "sv::msg", "sv::override_entry_point",
            "sv::attr", "sv::msg_attr", "sv::payload", "sv::data", "sv::features"}
IsSv(a) == a.p \in SvPaths
NotSv(attrs) == SelectSeq(attrs, LAMBDA a : ~IsSv(a))

IsHandler(m) == m.kind # ""
HandlersOf(it, k) == SelectSeq(it.members, LAMBDA m : m.kind = k)
HasHandler(it, k) == Len(HandlersOf(it, k)) > 0

(* ---- C06: entry points -------------------------------------------------- *)
Overridden(it) == {it.overrides[i] : i \in 1..Len(it.overrides)}
ExpectedEntryPoints(it) ==
    { EpName(k) : k \in (({"instantiate", "exec", "query", "sudo"}
                          \cup (IF HasHandler(it, "migrate") THEN {"migrate"} ELSE {})
                          \cup (IF HasHandler(it, "reply") THEN {"reply"} ELSE {}))
                         \ Overridden(it)) }

(* ---- C13: what is re-emitted of the user's item -------------------------- *)
(* in: the skeleton of the input as the harness parsed it; out: the first item of the expansion *)
MemberPassedThrough(mi, mo) ==
    /\ mo.kind = mi.kind /\ mo.name = mi.name /\ mo.vis = mi.vis
    /\ mo.sig = mi.sig /\ mo.body = mi.body                      \* token hashes
    /\ mo.attrs = NotSv(mi.attrs)
    /\ Len(mo.params) = Len(mi.params)
    /\ LET handler == \E i \in 1..Len(mi.attrs) : mi.attrs[i].p = "sv::msg" IN
       \A i \in 1..Len(mi.params) :
          /\ mo.params[i].n = mi.params[i].n
          /\ mo.params[i].attrs = (IF handler THEN <<>> ELSE mi.params[i].attrs)

LintOnly(attrs) == \A i \in 1..Len(attrs) : attrs[i].p = "allow"
ItemPassedThrough(in, out) ==
    /\ out.what = in.what /\ out.self_ty = in.self_ty
    /\ out.generics = in.generics /\ out.wheres = in.wheres
    /\ Len(out.members) = Len(in.members)
    /\ \A i \in 1..Len(in.members) : MemberPassedThrough(in.members[i], out.members[i])
    \* the emitted item may carry extra lint-level attributes in front
    /\ \E k \in 0..Len(out.attrs) :
          /\ LintOnly(SubSeq(out.attrs, 1, k))
          /\ SubSeq(out.attrs, k + 1, Len(out.attrs)) = NotSv(in.attrs)

ItemUnchanged(in, out) == out = in          \* the entry-point macro re-emits its input as it is

(* ---- generated type names ------------------------------------------------ *)
MsgTypeName(it, k) ==
    LET base == CASE k = "exec" -> "ExecMsg" [] k = "query" -> "QueryMsg" [] k = "sudo" -> "SudoMsg"
                  [] k = "instantiate" -> "InstantiateMsg" [] k = "migrate" -> "MigrateMsg" [] OTHER -> "ReplyMsg"
    IN IF it.macro = "interface" THEN it.self_ty \o base ELSE base
TypeKinds(it) == IF it.macro = "interface" THEN {"exec", "query", "sudo"}
                 ELSE {"exec", "query", "sudo"} \cup {k \in {"instantiate", "migrate"} : HasHandler(it, k)}

(* ---- C17: where forwarded attributes land -------------------------------- *)
(* forwards of an item: every marker attribute with the site it must land on *)
(*   [m |-> Attr, site |-> "type", kind]                                      *)
(*   [m |-> Attr, site |-> "variant", kind, method]                           *)
(*   [m |-> Attr, site |-> "field", kind, method, param]                      *)
TypeOf(ev, name) == CHOOSE t \in Range(ev.types) : t.n = name
HasType(ev, name) == \E t \in Range(ev.types) : t.n = name
InSeq(a, s) == \E i \in 1..Len(s) : s[i] = a
CountIn(a, s) == Cardinality({i \in 1..Len(s) : s[i] = a})

(* every place of the generated message types where attribute a occurs: <<type, variant, field>> *)
Occurrences(ev, a) ==
       {<<t.n, "", "">> : t \in {x \in Range(ev.types) : InSeq(a, x.attrs)}}
  \cup UNION {{<<t.n, v.n, "">> : v \in {x \in Range(t.variants) : InSeq(a, x.attrs)}} : t \in Range(ev.types)}
  \cup UNION {UNION {{<<t.n, v.n, f.n>> : f \in {x \in Range(v.fields) : InSeq(a, x.attrs)}} : v \in Range(t.variants)} : t \in Range(ev.types)}
  \cup UNION {{<<t.n, "", f.n>> : f \in {x \in Range(t.fields) : InSeq(a, x.attrs)}} : t \in Range(ev.types)}

MessageTypeNames(it) == {MsgTypeName(it, k) : k \in AllKinds}
(* the contract-level wrappers and helper types are not "the generated type of a kind" *)
OccurrencesInMessages(it, ev, a) == {o \in Occurrences(ev, a) : o[1] \in MessageTypeNames(it)}

ExpectedSite(it, f, variantOf) ==
    CASE f.site = "type"    -> <<MsgTypeName(it, f.kind), "", "">>
      [] f.site = "variant" -> <<MsgTypeName(it, f.kind), variantOf[f.method], "">>
      [] f.site = "field"   -> IF f.kind \in {"instantiate", "migrate"}
                               THEN <<MsgTypeName(it, f.kind), "", f.param>>
                               ELSE <<MsgTypeName(it, f.kind), variantOf[f.method], f.param>>

LandsExactly(it, ev, f, variantOf) ==
    IF f.kind \in TypeKinds(it)
    THEN OccurrencesInMessages(it, ev, f.m) = {ExpectedSite(it, f, variantOf)}
    ELSE OccurrencesInMessages(it, ev, f.m) = {}      \* no type of that kind is generated

(* ---- C15: type parameters and bounds of generated types ------------------ *)
SeqToSet(s) == {s[i] : i \in 1..Len(s)}
MentionsOfMember(m) ==
    UNION {SeqToSet(m.params[i].mentions) : i \in 1..Len(m.params)}
        \cup (IF m.kind = "query" THEN SeqToSet(m.retm) ELSE {})
Used(it, k) == UNION {MentionsOfMember(HandlersOf(it, k)[i]) : i \in 1..Len(HandlersOf(it, k))}
KeptWheres(it, k) == {w \in SeqToSet(it.wheres) : SeqToSet(w.mentions) \subseteq Used(it, k)}

NoDuplicates(s) == \A i, j \in 1..Len(s) : i # j => s[i] # s[j]
GenericsExact(it, ev, k) ==
    HasType(ev, MsgTypeName(it, k)) =>
        LET t == TypeOf(ev, MsgTypeName(it, k)) IN
        /\ SeqToSet(t.generics) = Used(it, k)
        /\ NoDuplicates(t.generics)
(* every place that names a generated message type by an associated type of an impl block (`type Exec = ExecMsg<..>` in the *)
(* contract's Api impl) gives it the type's own parameters, in the type's own order                                      *)
ApiNamesTypesInOrder(ev) ==
    \A im \in Range(ev.impls) : \A a \in Range(im.assoc) :
        (HasType(ev, a.head) /\ \A x \in Range(a.args) : x \in SeqToSet(TypeOf(ev, a.head).generics))
            => a.args = TypeOf(ev, a.head).generics
(* bounds on the type itself and on every impl block of exactly that type *)
BoundsOnlyOfUsed(it, ev, k, whereText) ==
    LET name == MsgTypeName(it, k)
        allowed == {whereText[w] : w \in KeptWheres(it, k)}
        tws == IF HasType(ev, name) THEN SeqToSet(TypeOf(ev, name).wheres) ELSE {}
        \* the impl blocks of exactly that type (inherent and trait impls alike)
        iws == UNION {SeqToSet(i.wheres) : i \in {x \in Range(ev.impls) : x.name = name}}
    IN tws \subseteq allowed /\ iws \subseteq allowed
=============================================================================
