------------------------------ MODULE MC_Bridge ------------------------------
EXTENDS Bridge, Json, IOUtils, SequencesExt
CONSTANTS MaxMsgs, Profs
SubMsgs == [kind : MsgKinds, prof : 1..Profs]
MsgSeqs == UNION {[1..n -> SubMsgs] : n \in 0..MaxMsgs}
Responses == [msgs : MsgSeqs, attrs : {0, 2}, events : {0, 2}, data : DataShapes]
Init == resp \in Responses /\ stage = "returned" /\ result = Pending
Next == DoBridge
Spec == Init /\ [][Next]_bvars
Emit ==
    /\ TLCGet("stats").generated > 0
    /\ ndJsonSerialize(IOEnv.VERIF_OUT, SetToSeq(Responses))
    /\ PrintT(<<"RESPONSES", Cardinality(Responses)>>)
=============================================================================
