---------------------------- MODULE Trace_Static ----------------------------
(***************************************************************************)
(* Validation of `Expand` events (projections of real macro expansions     *)
(* recorded by the in-process harness) against Static.tla.                 *)
(*   IOEnv.VERIF_PROGS  the items TLC emitted (MC_Static!EmitItems), in    *)
(*                      the order they were expanded; "" when the events   *)
(*                      come from real sources of the repository           *)
(*   IOEnv.VERIF_TRACE  one Expand event per item (per process run)        *)
(***************************************************************************)
EXTENDS Static, Json, IOUtils, TraceCommon

Rec == ndJsonDeserialize(IOEnv.VERIF_TRACE)
Items == IF IOEnv.VERIF_PROGS = "" THEN <<>> ELSE ndJsonDeserialize(IOEnv.VERIF_PROGS)

VARIABLES l,        \* next event
          eph       \* <<twin, entry point>> -> token hash of the emitted function, as first seen
tvars == <<l, eph>>

E == Rec[l]
(* events are indexed by the driver: E.ix = position of the item in Items (0: a real source of the repository),     *)
(* E.prev = position in the trace of the previous event about the same item (the other process run; 0: none)        *)
Known(id) == E.ix # 0
ItemOf(id) == Items[E.ix]

TInit == l = 1 /\ eph = <<>> /\ TLCSet(1, 1)

PropOfFamily(f) == CASE f = "ep" -> "C06" [] f = "pt" -> "C13" [] f = "fw" -> "C17" [] f = "gen" -> "C15" [] f = "rule" -> "C18" [] OTHER -> "C13"

(* ---- C06 ---------------------------------------------------------------- *)
EpNames(e) == {e.entry_points[i].n : i \in 1..Len(e.entry_points)}
EpKey(it, n) == <<it.twin, n>>
EpChecks(it, e) ==
    /\ Chk("C14", "entry_point_set_does_not_depend_on_the_order_of_declarations", l, EpNames(e) = ExpectedEntryPoints(it))
    /\ Chk("C06", "entry_points_are_defaults_plus_declared_minus_overridden", l, EpNames(e) = ExpectedEntryPoints(it))
    /\ Chk("C06", "each_entry_point_emitted_once", l, Len(e.entry_points) = Cardinality(EpNames(e)))
    /\ Chk("C06", "overriding_a_kind_does_not_alter_another_entry_point", l,
           \A i \in 1..Len(e.entry_points) :
              EpKey(it, e.entry_points[i].n) \in DOMAIN eph => eph[EpKey(it, e.entry_points[i].n)] = e.entry_points[i].h)
    /\ Chk("C06", "the_input_is_re_emitted_unchanged", l, ItemUnchanged(e.input, e.item))
EpRemember(it, e) ==
    [k \in DOMAIN eph \cup {EpKey(it, e.entry_points[i].n) : i \in 1..Len(e.entry_points)} |->
        IF k \in DOMAIN eph THEN eph[k]
        ELSE e.entry_points[CHOOSE i \in 1..Len(e.entry_points) : EpKey(it, e.entry_points[i].n) = k].h]

(* ---- C17 ---------------------------------------------------------------- *)
FwChecks(it, e, variantOf) ==
    \A i \in 1..Len(it.forwards) :
        Chk("C17", "forwarded_attribute_lands_on_exactly_the_designated_item", l,
            LandsExactly(it, e, it.forwards[i], variantOf))

(* variant identifiers of the methods of family fw (UpperCamel of a single lower-case word) *)
FwVariants == [foo |-> "Foo", bar |-> "Bar", ask |-> "Ask", poke |-> "Poke", instantiate |-> "Instantiate", migrate |-> "Migrate"]

(* ---- C15 ---------------------------------------------------------------- *)
WhereText(it, e) == IF it.macro = "interface"
                    THEN [w \in SeqToSet(it.wheres) |-> w.text]       \* bounds of the associated types
                    ELSE [w \in SeqToSet(it.wheres) |->
                             e.input.wheres[CHOOSE i \in 1..Len(it.wheres) : it.wheres[i] = w]]
GenChecks(it, e) ==
    /\ Chk("C15", "every_alias_of_a_message_type_gives_its_parameters_in_the_types_own_order", l, ApiNamesTypesInOrder(e))
    /\ \A k \in {"instantiate", "exec", "query", "sudo"} :
        /\ Chk("C15", "message_type_carries_exactly_the_parameters_its_handlers_use", l, GenericsExact(it, e, k))
        /\ Chk("C15", "message_type_is_bounded_only_by_predicates_over_its_own_parameters", l,
               BoundsOnlyOfUsed(it, e, k, WhereText(it, e)))

(* ---- C13 ---------------------------------------------------------------- *)
PassChecks(e) ==
    IF e.macro = "entry_points"
    THEN Chk("C13", "entry_points_macro_re_emits_its_input_unchanged", l, ItemUnchanged(e.input, e.item))
    ELSE Chk("C13", "item_is_re_emitted_with_only_framework_and_handler_parameter_attributes_removed", l,
             ItemPassedThrough(e.input, e.item))

TrExpand ==
    /\ l <= Len(Rec) /\ E.ev = "Expand"
    /\ Chk("BIND", "input_was_parsed", l, E.verdict # "badinput")
    /\ Chk("BIND", "event_index_names_this_item", l,
           /\ E.ix \in 0..Len(Items) /\ (E.ix # 0 => Items[E.ix].id = E.id)
           /\ E.prev \in 0..(l - 1) /\ (E.prev # 0 => Rec[E.prev].id = E.id))
    /\ LET known == Known(E.id)
           fam == IF known THEN ItemOf(E.id).family ELSE "real"
           prop == PropOfFamily(fam)
           \* ("rustc": the expansion raises nothing; the compiler rejects the program, see TrDiag)
           expectClean == known /\ ItemOf(E.id).expect \in {"clean", "rustc"}
       IN /\ Chk(prop, "a_valid_item_expands_without_diagnostic_or_crash", l, expectClean => (E.verdict = "clean" /\ E.parsed))
          /\ Chk("C18", "an_item_breaking_a_documented_rule_is_rejected_with_a_diagnostic", l,
                 (known /\ ItemOf(E.id).expect = "dirty") => E.verdict = "dirty")
          /\ Chk("C13", "expansion_never_crashes", l, E.verdict # "crash")
          /\ Chk("C13", "expanding_twice_in_one_process_gives_identical_output", l, E.deterministic)
          /\ Chk("C13", "expanding_in_another_process_gives_identical_output", l,
                 (E.verdict = "clean" /\ E.prev # 0 /\ Rec[E.prev].verdict = "clean") => Rec[E.prev].digest = E.digest)
          /\ IF E.verdict = "clean" /\ E.parsed
             THEN /\ (fam = "ep" => EpChecks(ItemOf(E.id), E))
                  /\ (fam = "fw" => FwChecks(ItemOf(E.id), E, FwVariants))
                  /\ (fam = "gen" => GenChecks(ItemOf(E.id), E))
                  /\ (fam \in {"pt", "real", "fw", "gen", "ep"} => PassChecks(E))
                  /\ eph' = IF fam = "ep" THEN EpRemember(ItemOf(E.id), E) ELSE eph
             ELSE UNCHANGED eph
    /\ l' = l + 1
    /\ TLCSet(1, l + 1)

(* ---- the item compiled by rustc with the real macros: its diagnostics (C18) ---------- *)
(* E.errors: every error rustc reported inside the item: [code, msg, member] -- code "" for a diagnostic raised by a   *)
(* macro, member = the method whose lines the primary span lies in ("" = outside every method)                        *)
(* a panic of the macro ("custom attribute panicked") is not a diagnostic: it names neither the rule nor the place *)
MacroDiags(e) == {i \in 1..Len(e.errors) : e.errors[i].code = "" /\ ~e.errors[i].panicked}
TrDiag ==
    /\ l <= Len(Rec) /\ E.ev = "Diag"
    /\ Chk("BIND", "event_index_names_this_item", l, E.ix \in 1..Len(Items) /\ Items[E.ix].id = E.id)
    /\ LET it == Items[E.ix] IN
       /\ Chk("C18", "a_valid_program_compiles", l, it.expect = "clean" => Len(E.errors) = 0)
       /\ Chk("C18", "a_program_breaking_a_documented_rule_fails_to_compile_with_a_diagnostic_of_the_framework", l,
              it.expect = "dirty" => MacroDiags(E) # {})
       /\ Chk("C18", "a_misplaced_marker_does_not_compile_and_the_error_points_at_it", l,
              it.expect = "rustc" =>
                  \E i \in 1..Len(E.errors) : ~E.errors[i].panicked /\ \E j \in 1..Len(it.sites) : E.errors[i].member = it.sites[j])
       /\ Chk("C18", "the_framework_reports_the_offence_instead_of_panicking", l,
              \A i \in 1..Len(E.errors) : ~E.errors[i].panicked)
       /\ Chk("C18", "the_diagnostic_points_at_the_offence", l,
              (it.expect = "dirty" /\ Len(it.sites) > 0) =>
                  \E i \in MacroDiags(E) : \E j \in 1..Len(it.sites) : E.errors[i].member = it.sites[j])
    /\ l' = l + 1 /\ TLCSet(1, l + 1)
    /\ UNCHANGED eph

TNext == TrExpand \/ TrDiag
TSpec == TInit /\ [][TNext]_tvars

TraceAccepted ==
    LET reached == TLCGet(1) IN
    IF reached = Len(Rec) + 1 THEN TRUE
    ELSE Print(<<"UNMATCHED", reached, Rec[reached].id>>, FALSE)
=============================================================================
