------------------------------ MODULE Runtime ------------------------------
(***************************************************************************)
(* The run-time machine the generated code implements for one delivered    *)
(* message: a JSON document arrives at the entry point of some kind ->     *)
(* the contract-level message decodes it (routing by the parts' published  *)
(* name lists, first match) -> the owning part decodes the body -> exactly *)
(* one handler runs -> its outcome returns.  One action per critical       *)
(* section of the generated code.                                          *)
(*                                                                         *)
(* Documents are modelled by classification only:                          *)
(*   shape  "obj1"  an object with one member `key`                        *)
(*          "obj0"  the empty object                                       *)
(*          "obj2"  an object with two different members                   *)
(*          "dup"   an object whose single name is written twice           *)
(*          "nonobj" array / string / number / bool / null                 *)
(*          "flat"  the flat object of the arguments of a struct message   *)
(*   body   "exact" | "missing" | "wrongtype" | "extra" | "notobj"         *)
(*          "null": the member's value is null                             *)
(*          "utf8pad0".."utf8pad3": a long body of multi-byte characters   *)
(*          "dropdefault": exact, except that the arguments carrying a     *)
(*          forwarded `serde(default)` attribute are left out (C17)        *)
(***************************************************************************)
EXTENDS Program

CONSTANT Programs    \* table: program id -> elaborated program (Program!Elab)

VARIABLES prog,      \* id of the program under execution
          pv,        \* oracle for this delivery: does the decoder of part i accept the document?
                     \* (the encoding of individual bodies is serde's business; only constrained by C01)
          stage,     \* "fresh" | "rejected" | "idle" | "delivered" | "decoded" | "ran" | "returned"
          ep,        \* kind of the entry point the document was delivered to
          doc,       \* the delivered document (classification)
          dec,       \* [verdict |-> "ok"|"err"|"none", part |-> index into prog.parts or 0, why |-> ..]
          ran,       \* handlers that ran since Deliver: seq of [part, name, kind]
          res,       \* "none" | "ok" | "err"
          origin     \* who made the document: "chain" (anybody), or the remote helper of a method [part, name]

rvars == <<prog, pv, stage, ep, doc, dec, ran, res, origin>>

P == Programs[prog]       \* the elaborated program under execution
EpKinds(q) == Range(q.ep_kinds)

Chain == [part |-> "", name |-> ""]      \* the document comes from the chain (anybody), not from a remote helper
NoDoc == [shape |-> "none", key |-> "", body |-> "none", path |-> ""]
(* path: "ep" = the generated entry point function of the kind; "mt" = the generated multitest `Contract` impl, *)
(* which for an overridden kind hands the raw document to the user's own entry point function (C06)         *)
Overridden(q) == Range(q.overrides)
(* the multitest impl has a migrate function whether or not the contract has a migrate handler: without one it  *)
(* must refuse the document and run nothing (C04)                                                              *)
MtKinds(q) == EpKinds(q) \cup (Overridden(q) \ {"reply"}) \cup {"migrate"}
NoDec == [verdict |-> "none", part |-> 0, why |-> "none"]

(* number of members the top-level object is written with *)
Members(d) == CASE d.shape = "obj1" -> 1 [] d.shape = "obj0" -> 0
                [] d.shape \in {"obj2", "dup"} -> 2 [] OTHER -> 0

(* What C01 fixes about a part's decoder (an enum message of kind k): it accepts only an   *)
(* object with exactly one member, named like one of its own messages, and it does accept *)
(* that message's own encoding.  Everything else (absent / extra / ill-typed members) is  *)
(* left to the oracle.                                                                    *)
OracleOk(q, k, d, o) ==
    /\ DOMAIN o = 1..Len(q.parts)
    /\ \A i \in 1..Len(q.parts) :
          /\ o[i] \in BOOLEAN
          /\ d.shape # "obj1" => ~o[i]
          /\ d.key \notin EWireNames(q.parts[i], k) => ~o[i]
          /\ (d.shape = "obj1" /\ d.key \in EWireNames(q.parts[i], k) /\ d.body \in {"exact", "dropdefault"}) => o[i]
Oracles(q, k, d) == {o \in [1..Len(q.parts) -> BOOLEAN] : OracleOk(q, k, d, o)}

AcceptingParts == {i \in DOMAIN pv : pv[i]}

(* ---- the macro: accept or reject the program -------------------------- *)
Expand ==
    /\ stage = "fresh"
    /\ stage' = IF P.accepted THEN "idle" ELSE "rejected"
    /\ UNCHANGED <<prog, pv, ep, doc, dec, ran, res, origin>>

(* ---- a document arrives at the entry point of kind k ------------------ *)
Deliver(k, d) ==
    /\ stage \in {"idle", "returned"}
    /\ d.path \in {"ep", "mt"}
    /\ k \in (IF d.path = "ep" THEN EpKinds(P) ELSE MtKinds(P))
    /\ stage' = "delivered"
    /\ ep' = k /\ doc' = d /\ pv' = <<>>
    /\ dec' = NoDec /\ ran' = <<>> /\ res' = "none" /\ origin' = Chain
    /\ UNCHANGED <<prog>>

(* ---- a remote helper (executor / querier / instantiate builder) of method m builds the       *)
(* ---- message and the chain delivers it to the target's entry point of that kind (C10)         *)
RemoteDoc(m) == IF m.kind \in EnumKinds THEN [shape |-> "obj1", key |-> m.wire, body |-> "exact", path |-> "ep"]
                ELSE [shape |-> "flat", key |-> m.kind, body |-> "exact", path |-> "ep"]
RemoteSend(i, m) ==
    /\ stage \in {"idle", "returned"}
    /\ i \in 1..Len(P.parts) /\ m \in Range(P.parts[i].methods) /\ m.kind \in {"exec", "query", "instantiate"}
    /\ m.kind \in EpKinds(P)
    /\ stage' = "delivered"
    /\ ep' = m.kind /\ doc' = RemoteDoc(m) /\ pv' = <<>>
    /\ dec' = NoDec /\ ran' = <<>> /\ res' = "none"
    /\ origin' = [part |-> P.parts[i].id, name |-> m.name]
    /\ UNCHANGED <<prog>>

(* ---- contract-level message: route by the published lists, first match - *)
FirstListing(p, k, key) ==
    \* (a part is asked when the name is one its messages answer to: for handlers without forwarded serde names that is exactly
    \*  the published list; an alias is answered to without being published, C03 demands that it is routed all the same)
    LET hits == {i \in 1..Len(p.parts) : key \in EWireNames(p.parts[i], k)}
    IN IF hits = {} THEN 0 ELSE CHOOSE i \in hits : \A j \in hits : i <= j

WrapperResult(q, k, d, o) ==     \* o: what each part's own decoder says about the document
    IF d.shape \in {"nonobj"} THEN [verdict |-> "err", part |-> 0, why |-> "format"]
    ELSE IF d.shape = "flat" \/ Members(d) # 1 THEN [verdict |-> "err", part |-> 0, why |-> "count"]
    ELSE LET i == FirstListing(q, k, d.key) IN
         IF i = 0 THEN [verdict |-> "err", part |-> 0, why |-> "unknown"]
         ELSE IF o[i]
              THEN [verdict |-> "ok", part |-> i, why |-> "none"]
              ELSE [verdict |-> "err", part |-> i, why |-> "body"]

ByOverride == doc.path = "mt" /\ ep \in Overridden(P)       \* this delivery is the user's business

AbsentKind == doc.path = "mt" /\ ep \notin EpKinds(P) /\ ep \notin Overridden(P)    \* nothing serves this kind

(* ---- a kind the contract has no handler for, reached through the multitest impl: refused ---- *)
AbsentReject ==
    /\ stage = "delivered" /\ AbsentKind
    /\ dec' = [verdict |-> "err", part |-> 0, why |-> "absent"]
    /\ stage' = "decoded"
    /\ UNCHANGED <<prog, pv, ep, doc, ran, res, origin>>

WrapperDecode(o) ==
    /\ stage = "delivered" /\ ep \in EnumKinds /\ ~ByOverride
    /\ pv' = o
    /\ dec' = WrapperResult(P, ep, doc, o)
    /\ stage' = "decoded"
    /\ UNCHANGED <<prog, ep, doc, ran, res, origin>>

(* ---- struct messages (instantiate / migrate): the derive's own decoder  *)
(* serde's treatment of absent / extra members is not modelled: any verdict *)
(* is possible except that the message's own flat encoding is accepted      *)
StructVerdictOk(v) ==
    /\ v \in {"ok", "err"}
    /\ (doc.shape = "flat" /\ doc.key = ep /\ doc.body \in {"exact", "dropdefault"}) => v = "ok"
    /\ doc.shape = "nonobj" => v = "err"
StructDecode(v) ==
    /\ stage = "delivered" /\ ep \in {"instantiate", "migrate"} /\ ~ByOverride /\ ~AbsentKind
    /\ dec' = [verdict |-> v, part |-> IF v = "ok" THEN Len(P.parts) ELSE 0, why |-> "none"]
    /\ stage' = "decoded"
    /\ UNCHANGED <<prog, pv, ep, doc, ran, res, origin>>

(* ---- an overridden kind: the user's function decodes its own message type and runs -- *)
OverrideDecode(v) ==
    /\ stage = "delivered" /\ ByOverride /\ v \in {"ok", "err"}
    /\ dec' = [verdict |-> v, part |-> 0, why |-> "override"]
    /\ stage' = "decoded"
    /\ UNCHANGED <<prog, pv, ep, doc, ran, res, origin>>
OverrideRun ==
    /\ stage = "decoded" /\ dec.verdict = "ok" /\ dec.why = "override"
    /\ ran' = Append(ran, [part |-> "override", name |-> "ov_" \o ep, kind |-> ep])
    /\ res' = "ok"
    /\ stage' = "ran"
    /\ UNCHANGED <<prog, pv, ep, doc, dec, origin>>

(* ---- dispatch: the match arm generated from the owning method ---------- *)
NoPart == [id |-> "?", methods |-> <<>>]
NoMethod == [name |-> "?", kind |-> "?", outcome |-> "err", args |-> <<>>, wire |-> "?", aliases |-> <<>>, code |-> 0]
Dispatch ==
    /\ stage = "decoded" /\ dec.verdict = "ok" /\ dec.why # "override"
    /\ LET part == IF dec.part \in 1..Len(P.parts) THEN P.parts[dec.part] ELSE NoPart
           \* (in the machine a decoded message always has an owner; a trace may show a handler running for a document no
           \*  message answers to -- the stand-in keeps the step defined so that the clauses can say what is wrong with it)
           m == IF ep \in EnumKinds
                THEN IF EOwnersIn(part, ep, doc.key) # {} THEN CHOOSE x \in EOwnersIn(part, ep, doc.key) : TRUE ELSE NoMethod
                ELSE IF Len(EMethodsOf(part, ep)) > 0 THEN EMethodsOf(part, ep)[1] ELSE NoMethod
       IN /\ ran' = Append(ran, [part |-> part.id, name |-> m.name, kind |-> m.kind])
          /\ res' = m.outcome
    /\ stage' = "ran"
    /\ UNCHANGED <<prog, pv, ep, doc, dec, origin>>

Return ==
    /\ \/ stage = "ran"
       \/ stage = "decoded" /\ dec.verdict = "err"
    /\ res' = IF stage = "ran" THEN res ELSE "err"
    /\ stage' = "returned"
    /\ UNCHANGED <<prog, pv, ep, doc, dec, ran, origin>>

-----------------------------------------------------------------------------
(* Properties, stated on behaviour -- separately from the mechanism above.  *)

(* C03: the contract-level message accepts exactly the union of its parts and routes right *)
C03_Routing ==
    (stage \in {"decoded", "ran", "returned"} /\ ep \in EnumKinds /\ ~ByOverride) =>
        /\ (dec.verdict = "ok") <=> (Cardinality(AcceptingParts) = 1)
        /\ dec.verdict = "ok" => dec.part \in AcceptingParts

(* C05 (design level): a program reaching run time has no name shared between parts *)
C05_NoSharedName ==
    stage \notin {"fresh", "rejected"} =>
        \A k \in EnumKinds : \A i, j \in 1..Len(P.parts) :
            i # j => EWireNames(P.parts[i], k) \cap EWireNames(P.parts[j], k) = {}

(* C04: a handler runs only for a message that arrived at the entry point of its own kind *)
C04_KindSeparation == \A i \in 1..Len(ran) : ran[i].kind = ep

(* C02: exactly the annotated handler, exactly once, and its own outcome *)
C02_ExactlyOne ==
    stage = "returned" =>
        /\ (dec.verdict = "ok" /\ dec.why = "override") => ran = <<[part |-> "override", name |-> "ov_" \o ep, kind |-> ep]>>
        /\ (dec.verdict = "ok" /\ dec.why # "override") =>
                                  /\ Len(ran) = 1
                                  /\ \E m \in Range(P.parts[dec.part].methods) :
                                        /\ m.kind = ep /\ m.name = ran[1].name
                                        /\ ep \in EnumKinds => doc.key \in EAccept(m)
                                        /\ res = m.outcome
                                  /\ ran[1].part = P.parts[dec.part].id
        /\ dec.verdict = "err" => ran = <<>> /\ res = "err"

(* C06 (design level): only emitted entry points receive documents; an overridden kind reaches the user's function *)
C06_OnlyEmitted == stage \in {"delivered", "decoded", "ran", "returned"} =>
                      ep \in (IF doc.path = "ep" THEN EpKinds(P) ELSE MtKinds(P))
C06_OverrideReachesUser ==
    (stage = "returned" /\ doc.path = "mt" /\ ep \in Overridden(P) /\ dec.verdict = "ok") =>
        ran = <<[part |-> "override", name |-> "ov_" \o ep, kind |-> ep]>>
C06_OverrideIsLocal ==      \* a kind that is not overridden is served by the generated code, whatever else is overridden
    (stage = "returned" /\ ep \notin Overridden(P) /\ dec.verdict = "ok") => (Len(ran) = 1 /\ ran[1].part # "override")

(* C10: what a remote helper builds is accepted by the target and runs the very method it was built for *)
C10_RemoteRoutesBack ==
    (stage = "returned" /\ origin # Chain) =>
        /\ dec.verdict = "ok"
        /\ Len(ran) = 1 /\ ran[1].part = origin.part /\ ran[1].name = origin.name

(* every delivered document is answered (checked under fairness, no constraint) *)
Answered == (stage = "delivered") ~> (stage = "returned")
=============================================================================
