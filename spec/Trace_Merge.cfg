SPECIFICATION TSpec
INVARIANTS MergeCorrect InBounds SelectedIsOngoing
POSTCONDITION TraceAccepted
CHECK_DEADLOCK FALSE
