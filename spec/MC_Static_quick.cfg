CONSTANTS
  PtChoices = 1
  GenParams = 2
INIT Init
NEXT Next
INVARIANTS C06_OverrideIsLocal C15_UsedIsUnionOfMentions
POSTCONDITION EmitItems
CHECK_DEADLOCK FALSE
