CONSTANTS
  MaxN = 3
  MaxLen = 2
  S = 4
SPECIFICATION FairSpec
PROPERTIES Terminates
CHECK_DEADLOCK FALSE
