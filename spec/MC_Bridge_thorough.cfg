CONSTANTS
  MaxMsgs = 2
  Profs = 6
INIT Init
NEXT Next
INVARIANTS C11_FailsExactlyOnCustom C11_OtherwiseIntact C11_NoPartialResponse
POSTCONDITION Emit
CHECK_DEADLOCK FALSE
