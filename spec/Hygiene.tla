------------------------------- MODULE Hygiene -------------------------------
(***************************************************************************)
(* C19: generated code refers to the framework only through the name the   *)
(* user's manifest imports it under, and its own helper type parameters    *)
(* stay clear of conventionally named user parameters.                     *)
(* The specification of behaviour (Runtime.tla, ReplyRT.tla, ...) mentions *)
(* neither a crate name nor parameter names; hence C19 is: every program   *)
(* builds, and its traces are accepted by the same trace specifications,   *)
(* under every configuration below.                                        *)
(*   configuration  [crate: the import name, param: the user's parameter]  *)
(***************************************************************************)
EXTENDS Naturals, Sequences, FiniteSets, TLC, Json, IOUtils, SequencesExt

Letters == {"A","B","C","D","E","F","G","H","I","J","K","L","M","N","O","P","Q","R","S","T","U","V","W","X","Y","Z"}
Words == {"Msg", "Query", "Param", "Data", "Item", "Value", "Resp", "Custom", "Exec", "Contract", "State", "Coin", "Addr"}
ParamNames == Letters \cup Words
(* names that can only be given to a contract's own type parameter (an interface reserves `Error`); they are names of traits *)
(* and types the generated function bodies import or mention                                                            *)
ContractOnlyWords == {"Error", "Deserialize", "Serialize", "Deps", "Env", "Binary",
                      \* ... of the chain simulator's parts and of the framework's own helper types and generated traits (plain words; compound
                      \* names of generated types such as `CodeId` or `InstantiateMsg` are no conventional parameter names and are left out)
                      "Executor", "Storage", "Api", "Module", "Bank", "Gov", "Ibc", "Wasm", "Staking", "Distribution", "Stargate",
                      "Querier", "CustomMsg", "CustomQuery", "StdResult", "App", "Remote", "Proxy", "Reply", "SubMsg",
                      "MessageInfo", "DepsMut", "JsonSchema", "QueryResponses", "Dispatch", "Schema", "Builder"}
Shapes == {"generic_contract", "interface_assoc"}
(* "generic_qualified": the contract's parameter is called like a *concrete type* in a module, and the exec and sudo handlers take that  *)
(* type by its qualified path (`other::Param`): the parameter is used by the instantiate and query messages only                       *)
QualifiedNames == Words \cup {"T", "E", "C", "D", "Q"}
Configs == [param : ParamNames, shape : Shapes] \cup [param : ContractOnlyWords, shape : {"generic_contract"}]
           \cup [param : ContractOnlyWords \ {"Error"}, shape : {"interface_assoc"}]
           \cup [param : QualifiedNames, shape : {"generic_qualified"}]
           \* "generic_custom_query": the parameter is the contract's custom *query* type, and an exec handler is called like it
           \* (its variant has the parameter's name)
           \* (not `Contract`: an exec handler called `contract` collides with the accessor of that name the generated helpers call --
           \*  a restriction on handler names, DESIGN 14.4, not a matter of parameter names)
           \cup [param : QualifiedNames \ {"Contract"}, shape : {"generic_custom_query"}]

VARIABLES cfg, stage      \* stage: "source" | "built" | "ran"
hvars == <<cfg, stage>>
Init == cfg \in Configs /\ stage = "source"
Build == stage = "source" /\ stage' = "built" /\ UNCHANGED cfg     \* a valid program builds whatever its parameters are called
Run == stage = "built" /\ stage' = "ran" /\ UNCHANGED cfg
Next == Build \/ Run
C19_NamesAreIrrelevant == TRUE        \* (nothing in this machine depends on cfg.param: that is the property)

Emit ==
    /\ TLCGet("stats").generated > 0
    /\ ndJsonSerialize(IOEnv.VERIF_OUT, SetToSeq(Configs))
    /\ PrintT(<<"CONFIGS", Cardinality(Configs)>>)
=============================================================================
