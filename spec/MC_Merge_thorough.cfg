CONSTANTS
  MaxN = 4
  MaxLen = 3
  S = 5
INIT Init
NEXT Next
INVARIANTS MergeCorrect InBounds SelectedIsOngoing BoundedWork
POSTCONDITION EmitStimuli
CHECK_DEADLOCK FALSE
