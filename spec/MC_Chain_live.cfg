CONSTANTS
  MaxCount = 2
SPECIFICATION FairSpec
PROPERTIES TxEnds
CHECK_DEADLOCK FALSE
