-------------------------- MODULE Trace_Multitest --------------------------
(* MtOp events (each operation applied through the proxies and as raw JSON to twin chains) against Multitest.tla *)
EXTENDS Program, Json, IOUtils, TraceCommon
Progs == ndJsonDeserialize(IOEnv.VERIF_PROGS)
Rec   == ndJsonDeserialize(IOEnv.VERIF_TRACE)
VARIABLES prog, codes, ctr, last, blk, hist, l
INSTANCE Multitest WITH Programs <- Progs
tvars == <<prog, codes, ctr, last, blk, hist, l>>
E == Rec[l]
ProgIx(id) == CHOOSE i \in 1..Len(Progs) : Progs[i].id = id
TInit == l = 1 /\ prog = 1 /\ codes = 0 /\ ctr = NoCtr /\ last = NoRes /\ blk = 0 /\ hist = <<>> /\ TLCSet(1, 1)

PM(o) == CHOOSE pm \in MethodsOfKind(o.op) : pm.part = o.part /\ pm.m.name = o.method
(* the specification's action for the logged operation (a new history starts from the empty chain) *)
Apply(o) ==
    CASE o.op = "store"       -> Store
      [] o.op = "instantiate" -> Instantiate(o.val, o.sender, o.funds, o.label, o.admin, o.salt)
      [] o.op = "exec"        -> Exec(PM(o), o.val, o.sender, o.funds)
      [] o.op = "query"       -> Query(PM(o), o.val)
      [] o.op = "sudo"        -> Sudo(PM(o), o.val)
      [] o.op = "migrate"     -> Migrate(o.val, o.sender)
      [] o.op \in {"update_block", "set_block"} -> MoveBlock(o.op, o.val)
      [] o.op = "code_info"   -> CodeInfo(o.val)

ViewOf(c) == [exists |-> c.exists, code |-> IF c.exists THEN ToString(c.code) ELSE "", label |-> c.label, admin |-> c.admin,
              mark |-> c.mark, count |-> IF c.exists THEN ToString(c.count) ELSE "", bal |-> IF c.exists THEN ToString(c.bal) ELSE ""]
FundsText(f) == CASE f = 0 -> "-" [] f = 7 -> "4zeta,3atom" [] OTHER -> ToString(f) \o "atom"      \* what the handler was handed, in the order given
ViewMatches(v, c) ==
    /\ v.exists = c.exists
    /\ c.exists => /\ v.code = ToString(c.code) /\ v.label = c.label /\ v.admin = c.admin
                   /\ v.mark = c.mark /\ v.count = ToString(c.count) /\ v.bal = ToString(c.bal)
                   /\ v.funds = FundsText(c.funds)
MethodOfOp(o) == IF o.op = "instantiate" THEN InstM ELSE IF o.op = "migrate" THEN MigM ELSE PM(o).m
OkAttrs(m) == << <<"h", m.name>>, <<"code", ToString(m.code)>> >>
ResMatches(r, o) ==      \* what the specification says the caller gets
    IF o.op \in {"store", "update_block", "set_block"} THEN r.ok
    ELSE IF o.op = "code_info" THEN r.ok /\ r.value.code_id = ToString(o.val) /\ r.value.creator # "" /\ r.value.checksum # ""
    ELSE LET m == MethodOfOp(o) IN
         IF m.outcome = "ok"
         THEN /\ r.ok
              /\ (o.op \in {"exec", "sudo", "migrate"} => r.resp.attrs = OkAttrs(m))
              /\ (o.op = "query" => r.value = QRespJson(m))
         ELSE /\ ~r.ok
              /\ IF o.op = "query" THEN r.err.class = "handler_text" /\ r.err.code = m.code
                 ELSE r.err.class = "handler" /\ r.err.code = m.code

TrMtOp ==
    /\ l <= Len(Rec) /\ E.ev = "MtOp"
    /\ IF E.step = 0
       THEN \* a new history: both chains are fresh
            /\ prog' = ProgIx(E.prog)
            /\ LET p0 == ProgIx(E.prog) IN
               /\ Chk("BIND", "history_starts_with_store", l, E.op.op = "store")
               /\ codes' = 1 /\ ctr' = NoCtr /\ last' = NoRes /\ blk' = 0 /\ hist' = <<E.op>>
       ELSE Apply(E.op)
    /\ Chk("C12", "generated_code_does_not_panic", l, E.panic = "")
    /\ IF E.panic # "" THEN TRUE       \* nothing else was observed of this operation (the history ends here)
       ELSE
       /\ Chk("C12", "proxy_call_and_raw_json_leave_the_two_chains_in_the_same_state", l, E.proxy.view = E.raw.view /\ E.same_addr)
       /\ Chk("C12", "proxy_call_and_raw_json_have_the_same_result", l, E.proxy.res = E.raw.res)
       /\ Chk("C12", "handler_error_surfaces_as_the_contracts_error_value", l, ResMatches(E.proxy.res, E.op))
       /\ Chk("C12", "chain_state_is_what_the_handlers_left", l, ViewMatches(E.proxy.view, ctr') /\ ViewMatches(E.raw.view, ctr'))
       \* either way the operation runs the handler it names as often: once when it gets that far (the result is the handler's own), and
       \* the same number of times on both chains whatever happens
       /\ Chk("C12", "proxy_call_runs_the_handler_as_often_as_the_raw_json", l, E.ran.proxy = E.ran.raw)
       /\ Chk("C12", "an_operation_answered_by_its_handler_ran_it_exactly_once", l,
              ResMatches(E.proxy.res, E.op) => E.ran.proxy = RunsOf(E.op))
       \* (C02, through a chain: a message dispatched on the contract invokes its handler exactly once -- on either chain)
       /\ Chk("C02", "dispatch_through_a_chain_invokes_the_handler_exactly_once", l,
              (ResMatches(E.proxy.res, E.op) => E.ran.proxy = RunsOf(E.op)) /\ (ResMatches(E.raw.res, E.op) => E.ran.raw = RunsOf(E.op)))
       \* the harness's own helpers (block information, code information): the chain stands where the history moved it
       /\ Chk("C12", "block_helpers_move_the_chain_as_the_underlying_chain_is_moved", l,
              E.proxy.view.height = ToString(12345 + blk') /\ E.raw.view.height = ToString(12345 + blk'))
    /\ l' = l + 1 /\ TLCSet(1, l + 1)
TSpec == TInit /\ [][TrMtOp]_tvars
TraceAccepted ==
    LET reached == TLCGet(1) IN
    IF reached = Len(Rec) + 1 THEN TRUE ELSE Print(<<"UNMATCHED", reached, Rec[reached].op>>, FALSE)
=============================================================================
