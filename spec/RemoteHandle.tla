---------------------------- MODULE RemoteHandle ----------------------------
(***************************************************************************)
(* The stored remote contract handle (sylvia::types::Remote<T>): its       *)
(* encoding is the object {"addr": <address>} whatever T is and whether    *)
(* the handle owns or borrows the address (C20).                           *)
(***************************************************************************)
EXTENDS Naturals, Sequences, FiniteSets, TLC

TypeParams == {"contract", "generic", "dyn", "dyn_assoc", "unit"}

VARIABLES h,       \* the handle: [ty, owned, addr]   (addr is an abstract address: a natural number)
          stage,   \* "handle" | "encoded" | "decoded"
          enc,     \* the encoding: a record of JSON members
          back     \* the handle decoded from the encoding
hvars == <<h, stage, enc, back>>

Enc(x) == [addr |-> x.addr]                 \* one member, the address; nothing about ty / owned
Dec(e, ty) == [ty |-> ty, owned |-> TRUE, addr |-> e.addr]

Encode == /\ stage = "handle" /\ enc' = Enc(h) /\ stage' = "encoded" /\ UNCHANGED <<h, back>>
Decode(ty) == /\ stage = "encoded" /\ back' = Dec(enc, ty) /\ stage' = "decoded" /\ UNCHANGED <<h, enc>>

(* a document with further members next to `addr`: whether it is accepted is not prescribed; when it is, the handle is a handle *)
(* to that address like any other -- nothing of the document it came from stays with it                                       *)
DecLoose(e, ty, more) == Dec(e, ty)
(* C20 *)
C20_DecodedHandleEncodesAlike == stage = "decoded" => Enc(back) = Enc(h) /\ \A more \in {{}, {"code_id", "label"}} : Enc(DecLoose(enc, back.ty, more)) = Enc(h)
C20_SingleMemberAddr == stage # "handle" => DOMAIN enc = {"addr"} /\ enc.addr = h.addr
C20_DecodesToSameAddress == stage = "decoded" => back.addr = h.addr
(* type independence: any two handles to the same address have the same encoding *)
C20_TypeIndependent(handles) == \A a, b \in handles : a.addr = b.addr => Enc(a) = Enc(b)

(* the schema of a state holding several handles: one definition, named independently of the type parameters, *)
(* which every handle field refers to                                                                         *)
SchemaName(x) == "Remote"                    \* nothing about ty / owned
C20_OneDefinition(handles) == Cardinality({SchemaName(x) : x \in handles}) <= 1

(* tagged JSON of the prescribed encoding of address text t *)
EncJson(t) == [t |-> "o", f |-> << [k |-> "addr", v |-> [t |-> "s", v |-> t]] >>]
=============================================================================
