SPECIFICATION TSpec
INVARIANTS C20_SingleMemberAddr C20_DecodesToSameAddress
POSTCONDITION TraceAccepted
CHECK_DEADLOCK FALSE
