---------------------------- MODULE MC_Routing ----------------------------
(***************************************************************************)
(* Bounded instance of the routing machine (Runtime.tla) and generator of  *)
(* the routing corpus.                                                     *)
(*                                                                         *)
(*  small    every program with Ifaces interfaces + the contract, each     *)
(*           (part, kind) slot holding at most one handler named from      *)
(*           SmallNames -- colliding ones included, to show that the       *)
(*           build-time check is what makes routing unambiguous            *)
(*  corpus   programs that pack *every* identifier over Alphabet up to     *)
(*           NameLen characters into (part, kind) slots; these are         *)
(*           compiled against the real macros and their traces validated   *)
(*           by Trace_Routing                                              *)
(*  shared   programs whose handlers of different kinds share names/shapes *)
(***************************************************************************)
EXTENDS Program, Json, IOUtils

CONSTANTS Alphabet,     \* characters of the corpus name universe
          NameLen,      \* maximal name length in the corpus
          PerProg,      \* handlers per corpus program
          SmallNames,   \* names (char sequences) of the exhaustive small family
          Ifaces,       \* number of interfaces in the small family
          BuilderSets   \* setters applied to a remote helper's builder before it builds (C10)

Mod(a, b) == a % b      \* (the only occurrence of the percent sign: TLC's message formatter chokes on it)

(* values for the cfg files (tuples cannot be written there) *)
SmallNamesQuick == {<<"a", "_", "b">>, <<"a", "_", "_", "b">>}
SmallNamesThorough == {<<"a">>, <<"a", "1">>, <<"a", "_", "b">>, <<"a", "_", "_", "b">>}

(* ---------------------------------------------------------------- names *)
Usable(n) ==      \* identifiers the macros can turn into a variant identifier
    /\ IsIdent(n)
    /\ Len(VariantDef(n)) > 0
    /\ VariantDef(n)[1] \in Upper
NameUniverse == {n \in NamesUpTo(Alphabet, NameLen) : Usable(n)}
UniverseSeq == SetToSortSeq(NameUniverse, NameLess)

(* casing of every name of this instance, computed once (TLC does not memoise operators) *)
NameInstantiate == <<"i","n","s","t","a","n","t","i","a","t","e">>
NameMigrate == <<"m","i","g","r","a","t","e">>
NameFoo == <<"f","o","o">>
NameBar == <<"b","a","r">>
TableNames == NameUniverse \cup SmallNames \cup {NameInstantiate, NameMigrate, NameFoo, NameBar, <<"x">>, <<"y">>, <<"z">>, <<"a","_","b">>, <<"a","_","_","b">>, <<"a","1">>, <<"a","_","1">>, <<"a","a","1">>,
                <<"a","_","é">>, <<"é">>, <<"b","_","é","a">>, <<"é","_","b">>, <<"x","_","y">>, <<"z","_","1">>}
CaseTable == TLCEval([n \in TableNames |-> [v |-> VariantDef(n), w |-> WireDef(n), near |-> NearDef(n)]])
VariantFast(n) == CaseTable[n].v
WireFast(n) == CaseTable[n].w
NearFast(n) == CaseTable[n].near

(* greedy first-fit packing of names into groups of at most PerProg names in which *)
(* no two names share a variant identifier or a wire name                          *)
(* (helper traits -- executor, querier, multitest proxies -- name their methods by           *)
(*  convert_case's snake_case of the variant, so two handlers whose variants differ only in   *)
(*  capitalisation, e.g. `aa` / `a_a`, cannot live in one program either: rustc rejects it)   *)
Clash(a, b) == \/ CaseTable[a].v = CaseTable[b].v
               \/ CaseTable[a].w = CaseTable[b].w
               \/ CaseTable[a].near = CaseTable[b].near
RECURSIVE Pack(_, _, _, _)
Pack(rest, cur, deferred, groups) ==
    IF Len(rest) = 0
    THEN IF Len(cur) = 0 THEN groups
         ELSE IF Len(deferred) = 0 THEN Append(groups, cur)
         ELSE Pack(deferred, <<>>, <<>>, Append(groups, cur))
    ELSE IF Len(cur) = PerProg
         THEN Pack(deferred \o rest, <<>>, <<>>, Append(groups, cur))
         ELSE IF \E i \in 1..Len(cur) : Clash(cur[i], Head(rest))
              THEN Pack(Tail(rest), cur, Append(deferred, Head(rest)), groups)
              ELSE Pack(Tail(rest), Append(cur, Head(rest)), deferred, groups)
Groups == TLCEval(Pack(UniverseSeq, <<>>, <<>>, <<>>))

(* ------------------------------------------------------------- programs *)
PartIds == <<"i1", "i2", "own">>
SlotKinds == <<"exec", "query", "sudo">>
Sigs == <<  <<>>,
            << [n |-> "x", t |-> "u32"] >>,
            << [n |-> "x", t |-> "u32"], [n |-> "y", t |-> "u32"] >>,
            << [n |-> "to_addr", t |-> "String"], [n |-> "amount", t |-> "Uint128"] >>,
            << [n |-> "flag", t |-> "bool"], [n |-> "opt", t |-> "OptU32"], [n |-> "tags", t |-> "VecString"] >>,
            << [n |-> "inner", t |-> "Nested"] >>,
            << [n |-> "data", t |-> "Binary"], [n |-> "x", t |-> "String"] >>,
            \* an integer wider than 64 bits, written as a JSON number by the part's own encoder
            << [n |-> "big", t |-> "U128"], [n |-> "n", t |-> "u32"] >>,
            \* argument types with richer *syntax* (the macros copy the type tokens into the message types):
            \* a fully qualified path, an array, a map, nested generics with a tuple, a box, a negative integer, the unit type
            << [n |-> "coin", t |-> "CoinQ"], [n |-> "arr", t |-> "Arr4"] >>,
            << [n |-> "m", t |-> "MapSU"], [n |-> "p", t |-> "OptVecPair"] >>,
            << [n |-> "b", t |-> "BoxNested"], [n |-> "i", t |-> "I64"], [n |-> "u", t |-> "Unit"] >>,
            \* a type of the framework's own runtime library: a handle to another contract
            << [n |-> "peer", t |-> "RemoteH"], [n |-> "x", t |-> "u32"] >> >>

RespShape(j) == CASE Mod(j, 16) = 2 -> "Tup1" [] Mod(j, 16) = 6 -> "VecTup1" [] Mod(j, 16) = 10 -> "Tup2" [] Mod(j, 16) = 14 -> "ArrB"
                  [] Mod(j, 16) = 4 -> "Bin" [] Mod(j, 16) = 12 -> "Str"      \* types that are JSON strings: bytes (base64) and text
                  [] Mod(j, 2) = 0 -> "QResp" [] OTHER -> "QRespB"
Mk(name, kind, j) ==
    [name |-> name, kind |-> kind, args |-> Sigs[Mod(j, Len(Sigs)) + 1],
     outcome |-> IF Mod(j, 3) = 2 THEN "err" ELSE "ok",
     \* the declared response type of a query, and whether it is given explicitly (`resp=`) with an aliased result type (C16)
     \* (response types that are no type paths: a one-element tuple, a pair, a vector of one-element tuples, an array)
     resp |-> IF kind # "query" THEN "" ELSE RespShape(j),
     explicit |-> kind = "query" /\ (Mod(j, 4) = 3 \/ Mod(j, 8) = 5),
     \* how the signature is written when `resp=` is given: an aliased result type, or a plain Result of *another* type
     \* (the declared response type is the attribute's; `ret` is what the handler actually returns)
     ctxkind |-> "",      \* "" : the context parameter is written with the kind's own context type
     sig |-> IF kind = "query" /\ Mod(j, 8) = 5 THEN "plain" ELSE "alias",
     ret |-> IF kind # "query" THEN "" ELSE IF Mod(j, 8) = 5 THEN "QResp" ELSE RespShape(j)]

InstMethod(j) == [name |-> NameInstantiate, kind |-> "instantiate", args |-> Sigs[Mod(j, 3) + 1], outcome |-> "ok", resp |-> "", explicit |-> FALSE, ctxkind |-> "",
                  sig |-> "alias", ret |-> ""]
MigMethod(j)  == [name |-> NameMigrate, kind |-> "migrate", args |-> Sigs[Mod(j + 1, 3) + 1],
                  \* (only programs with an even index have a migrate handler: every second of them fails)
                  outcome |-> IF Mod(j, 4) = 0 THEN "err" ELSE "ok", resp |-> "", explicit |-> FALSE, ctxkind |-> "", sig |-> "alias", ret |-> ""]

(* name j of a group goes to slot (j-1) mod 9: part = slot div 3, kind = slot mod 3 *)
SlotPart(j) == (Mod(j - 1, 9) \div 3) + 1
SlotKind(j) == SlotKinds[Mod(Mod(j - 1, 9), 3) + 1]
PartOf(g, pi, gi) ==
    LET idxs == SelectSeq([j \in 1..Len(g) |-> j], LAMBDA j : SlotPart(j) = pi)
        ms   == [x \in 1..Len(idxs) |-> Mk(g[idxs[x]], SlotKind(idxs[x]), idxs[x] + gi)]
    IN [id |-> PartIds[pi],
        methods |-> IF pi = 3 THEN <<InstMethod(gi)>> \o ms \o (IF Mod(gi, 2) = 0 THEN <<MigMethod(gi)>> ELSE <<>>)
                    ELSE ms]
CorpusProg(gi) ==
    [id |-> "R" \o ToString(gi), family |-> "corpus", overrides |-> {},
     parts |-> [pi \in 1..3 |-> PartOf(Groups[gi], pi, gi)]]

(* programs in which handlers of different kinds deliberately share names and shapes (C04) *)
ShareSig == << [n |-> "x", t |-> "u32"] >>
Sh(name, kind, o) == [name |-> name, kind |-> kind, args |-> ShareSig, outcome |-> o,
                      resp |-> IF kind = "query" THEN "QResp" ELSE "", explicit |-> FALSE, ctxkind |-> "", sig |-> "alias",
                      ret |-> IF kind = "query" THEN "QResp" ELSE ""]
Shared1 ==
    [id |-> "S1", family |-> "shared", overrides |-> {},
     parts |-> << [id |-> "i1", methods |-> << Sh(NameFoo, "sudo", "ok"), Sh(NameBar, "exec", "ok") >>],
                  [id |-> "i2", methods |-> << Sh(NameFoo, "query", "ok"), Sh(NameBar, "sudo", "err") >>],
                  [id |-> "own", methods |-> << Sh(NameInstantiate, "instantiate", "ok"),
                                                Sh(NameFoo, "exec", "ok"), Sh(NameBar, "query", "ok"),
                                                Sh(NameMigrate, "migrate", "ok") >>] >>]
Shared2 ==
    [id |-> "S2", family |-> "shared", overrides |-> {},
     parts |-> << [id |-> "own", methods |-> << Sh(NameFoo, "instantiate", "ok"),
                                                Sh(<<"x">>, "exec", "ok"), Sh(<<"y">>, "query", "ok"), Sh(<<"z">>, "sudo", "err"),
                                                Sh(NameBar, "migrate", "err") >>] >>]

(* a program whose handlers take many arguments of one type: any permutation between message fields and
   handler parameters would still type-check (C02) *)
WideSig == [i \in 1..12 |-> [n |-> "p" \o ToString(i), t |-> "u32"]]
Wd(name, kind) == [Sh(name, kind, "ok") EXCEPT !.args = WideSig]
Wide1 ==
    [id |-> "W1", family |-> "shared", overrides |-> {},
     parts |-> << [id |-> "i1", methods |-> << Wd(NameFoo, "exec"), Wd(NameBar, "query"), Wd(<<"z">>, "sudo") >>],
                  [id |-> "own", methods |-> << Wd(NameInstantiate, "instantiate"),
                                                Wd(<<"x">>, "exec"), Wd(<<"y">>, "query"), Wd(NameFoo, "sudo"),
                                                Wd(NameMigrate, "migrate") >>] >>]

(* generic programs: the contract is generic in T (instantiated with a concrete type at the entry points), the interface
   has an associated type the contract forwards T to; "GenT" is an argument of that type *)
GSig == << [n |-> "g", t |-> "GenT"] >>
GSig2 == << [n |-> "g", t |-> "GenT"], [n |-> "n", t |-> "u32"] >>
Gm(name, kind, sig) == [Sh(name, kind, "ok") EXCEPT !.args = sig]
Generic1 ==      \* the interface and the contract both have generic exec and query messages
    [id |-> "G1", family |-> "generic", overrides |-> {},
     parts |-> << [id |-> "i1", methods |-> << Gm(NameFoo, "exec", GSig), Gm(NameBar, "query", GSig), Sh(<<"z">>, "sudo", "err") >>],
                  [id |-> "own", methods |-> << Gm(NameInstantiate, "instantiate", GSig), Gm(<<"x">>, "exec", GSig2),
                                                Gm(<<"y">>, "query", GSig), Gm(NameFoo, "sudo", GSig), Gm(NameMigrate, "migrate", GSig) >>] >>]
Generic2 ==      \* only the contract is generic, and only in its exec messages
    [id |-> "G2", family |-> "generic", overrides |-> {},
     parts |-> << [id |-> "i1", methods |-> << Sh(NameFoo, "exec", "ok"), Sh(NameBar, "query", "ok") >>],
                  [id |-> "own", methods |-> << Sh(NameInstantiate, "instantiate", "ok"), Gm(<<"x">>, "exec", GSig2),
                                                Sh(<<"y">>, "query", "err"), Gm(<<"z">>, "sudo", GSig) >>] >>]

(* the contract's type parameter is also what queries *return* (the contract's own query and, through the associated type, the
   interface's): the response tables of such a contract depend on the type it is used with ("GenT": that type) *)
Gq(name, sig) == [Gm(name, "query", sig) EXCEPT !.resp = "GenT", !.ret = "GenT"]
Generic3 ==
    [id |-> "G3", family |-> "generic", overrides |-> {},
     parts |-> << [id |-> "i1", methods |-> << Gm(NameFoo, "exec", GSig), Gq(NameBar, GSig), Sh(<<"x","_","y">>, "query", "ok") >>],
                  [id |-> "own", methods |-> << Gm(NameInstantiate, "instantiate", GSig), Gm(<<"x">>, "exec", GSig2),
                                                Gq(<<"y">>, <<>>), Sh(<<"z","_","1">>, "query", "ok"), Gm(NameFoo, "sudo", GSig) >>] >>]

(* a program whose handler arguments carry a forwarded `serde(default)` (plain, and wrapped in a conditional attribute):
   the attribute must take effect on the message field -- the argument may be left out on the wire (C17) *)
DefaultTypes == {"DfltU32", "DfltU32W"}
Dm(name, kind, sig) == [Sh(name, kind, "ok") EXCEPT !.args = sig]
Defaults1 ==
    [id |-> "A1", family |-> "shared", overrides |-> {},
     parts |-> << [id |-> "i1", methods |-> << Dm(NameFoo, "exec", << [n |-> "a", t |-> "DfltU32W"], [n |-> "b", t |-> "String"] >>),
                                               Dm(NameBar, "query", << [n |-> "q", t |-> "DfltU32"] >>) >>],
                  [id |-> "own", methods |-> << Dm(NameInstantiate, "instantiate", << [n |-> "v", t |-> "DfltU32"] >>),
                                                Dm(<<"x">>, "exec", << [n |-> "x", t |-> "u32"], [n |-> "y", t |-> "DfltU32"] >>),
                                                Dm(<<"y">>, "query", << [n |-> "q", t |-> "DfltU32W"] >>),
                                                Dm(<<"z">>, "sudo", << [n |-> "s", t |-> "DfltU32"], [n |-> "t", t |-> "DfltU32W"] >>),
                                                Dm(NameMigrate, "migrate", << [n |-> "v", t |-> "DfltU32W"], [n |-> "w", t |-> "u32"] >>) >>] >>]

(* argument names that are Rust keywords (written as raw identifiers `r#type` in the source): on the wire the plain name;
   and names next to keywords (`type_`, `_in`): on the wire exactly as written *)
Km(name, kind, sig) == [Sh(name, kind, "ok") EXCEPT !.args = sig]
Keywords1 ==
    [id |-> "K1", family |-> "shared", overrides |-> {},
     parts |-> << [id |-> "i1", methods |-> << Km(NameFoo, "exec", << [n |-> "type", t |-> "u32"], [n |-> "ref", t |-> "String"], [n |-> "type_", t |-> "u32"] >>),
                                               Km(NameBar, "query", << [n |-> "fn", t |-> "u32"] >>) >>],
                  [id |-> "own", methods |-> << Km(NameInstantiate, "instantiate", << [n |-> "mod", t |-> "u32"], [n |-> "ref_", t |-> "u32"] >>),
                                                Km(<<"x">>, "exec", << [n |-> "match", t |-> "u32"], [n |-> "type", t |-> "String"], [n |-> "match_", t |-> "bool"], [n |-> "_in", t |-> "u32"] >>),
                                                Km(<<"y">>, "query", << [n |-> "loop", t |-> "u32"] >>),
                                                Km(<<"z">>, "sudo", << [n |-> "move", t |-> "u32"] >>) >>] >>]

(* argument names that are also names of locals, parameters and fields the generated code itself uses (the builders' `funds`, the
   helpers' `contract`, the entry points' `deps` / `env` / `info` / `msg`, the instantiate proxy's `code_id` / `label` / `admin` / `salt`) *)
Locals1 ==
    [id |-> "L1", family |-> "shared", overrides |-> {},
     parts |-> << [id |-> "i1", methods |-> << Km(NameFoo, "exec", << [n |-> "funds", t |-> "u32"], [n |-> "contract", t |-> "String"], [n |-> "msg", t |-> "u32"] >>),
                                               Km(NameBar, "query", << [n |-> "querier", t |-> "u32"], [n |-> "contract", t |-> "String"] >>),
                                               Km(<<"z">>, "sudo", << [n |-> "env", t |-> "u32"], [n |-> "deps", t |-> "String"] >>) >>],
                  [id |-> "own", methods |-> << Km(NameInstantiate, "instantiate", << [n |-> "code_id", t |-> "u32"], [n |-> "label", t |-> "String"], [n |-> "admin", t |-> "u32"],
                                                                                     [n |-> "salt", t |-> "u32", mut |-> TRUE], [n |-> "funds", t |-> "u32"] >>),
                                                Km(<<"x">>, "exec", << [n |-> "funds", t |-> "u32"], [n |-> "contract", t |-> "String"], [n |-> "info", t |-> "u32", mut |-> TRUE], [n |-> "sender", t |-> "u32"] >>),
                                                Km(<<"y">>, "query", << [n |-> "deps", t |-> "u32"], [n |-> "msg", t |-> "String", mut |-> TRUE], [n |-> "app", t |-> "u32"] >>),
                                                Km(<<"x","_","y">>, "sudo", << [n |-> "msg", t |-> "u32"], [n |-> "contract", t |-> "String"] >>),
                                                Km(NameMigrate, "migrate", << [n |-> "msg", t |-> "u32"], [n |-> "code_id", t |-> "u32"], [n |-> "app", t |-> "String"] >>) >>] >>]

(* struct-message handlers (instantiate, migrate) whose names do not survive the snake -> UpperCamel -> snake round trip,
   next to a handler of another kind that carries the re-derived name and the same arguments (C04) *)
Shared3 ==
    [id |-> "S3", family |-> "shared", overrides |-> {},
     parts |-> << [id |-> "own", methods |-> << Sh(<<"a", "1">>, "instantiate", "ok"), Sh(<<"a", "_", "1">>, "exec", "ok"),
                                                Sh(<<"y">>, "query", "ok"), Sh(<<"z">>, "sudo", "ok"),
                                                Sh(<<"a", "a", "1">>, "migrate", "ok") >>] >>]

(* a program whose interfaces live in nested modules with the same last path segment (`i1::iface`, `i2::iface`):
   nothing may identify an interface by the last segment of its module path (C16, C03) *)
Nested1 ==
    [id |-> "N1", family |-> "nested", overrides |-> {},
     parts |-> << [id |-> "i1", methods |-> << Sh(NameFoo, "exec", "ok"), Sh(NameBar, "query", "ok") >>],
                  [id |-> "i2", methods |-> << Sh(<<"x">>, "exec", "err"), Sh(<<"y">>, "query", "ok"), Sh(<<"z">>, "sudo", "ok") >>],
                  [id |-> "own", methods |-> << Sh(NameInstantiate, "instantiate", "ok"), Sh(<<"a">>, "exec", "ok"), Sh(<<"b">>, "query", "ok") >>] >>]

(* handler names with a cased letter outside ASCII (legal Rust identifiers): the published lists must still be the serialised names *)
Unicode1 ==
    [id |-> "U1", family |-> "shared", overrides |-> {},
     parts |-> << [id |-> "i1", methods |-> << Sh(<<"a","_","é">>, "exec", "ok"), Sh(<<"é","_","b">>, "query", "ok") >>],
                  [id |-> "own", methods |-> << Sh(NameInstantiate, "instantiate", "ok"), Sh(<<"é">>, "exec", "ok"),
                                                Sh(<<"b","_","é","a">>, "query", "err"), Sh(<<"a","_","é">>, "sudo", "ok") >>] >>]

(* degenerate but legal programs: an interface without any handler next to a contract that has nothing but its instantiate
   handler; and a contract whose handlers have one very long name each *)
Empty1 ==
    [id |-> "E1", family |-> "shared", overrides |-> {},
     parts |-> << [id |-> "i1", methods |-> <<>>],
                  [id |-> "own", methods |-> << Sh(NameInstantiate, "instantiate", "ok") >>] >>]

(* handlers whose context parameter is written with the context type of a sibling kind (legal whenever both are built from the
   same tuple: sudo / migrate, exec / instantiate): the kind of a handler is what its sv::msg says, not what its ctx type suggests *)
Cx(name, kind, ck) == [Sh(name, kind, "ok") EXCEPT !.ctxkind = ck]
CtxKinds1 ==
    [id |-> "C1", family |-> "shared", overrides |-> {},
     parts |-> << [id |-> "i1", methods |-> << Cx(NameFoo, "sudo", "migrate"), Sh(NameBar, "exec", "ok") >>],
                  [id |-> "own", methods |-> << Cx(NameInstantiate, "instantiate", "exec"), Cx(<<"x">>, "exec", "instantiate"),
                                                Sh(<<"y">>, "query", "ok"), Cx(<<"z">>, "sudo", "migrate"),
                                                Cx(NameMigrate, "migrate", "sudo") >>] >>]

(* handlers carrying serde names forwarded to their variants: `#[sv::attr(serde(alias = ".."))]`, `#[sv::attr(serde(rename = ".."))]`.   *)
(* AL1: aliases and new names that no other part uses.  AL2 / AL2p: one alias claimed by a handler of each of two interfaces -- a     *)
(* wire name shared between two parts (C05: must not build); the twin lists the interfaces in the opposite order (C14).               *)
Zed == <<"z","e","d">>
OwnZed == <<"o","w","n","_","z","e","d">>
Other == <<"o","t","h","e","r">>
SudoOther == <<"s","_","o","t","h","e","r">>
Al(name, kind, as) == Sh(name, kind, "ok") @@ [aliases |-> as]
Rn(name, kind, w) == Sh(name, kind, "ok") @@ [wname |-> w]
Rs(name, kind, w) == Sh(name, kind, "ok") @@ [wser |-> w]          \* written under w, read under the name derived from the method
Alias1 ==
    [id |-> "AL1", family |-> "alias", overrides |-> {},
     parts |-> << [id |-> "i1", methods |-> << Al(NameFoo, "exec", <<Zed>>), Rn(NameBar, "exec", Other), Sh(<<"y">>, "query", "ok"),
                                               Rs(<<"a","_","b">>, "exec", <<"w","r","i","t","t","e","n">>) >>],
                  [id |-> "own", methods |-> << Sh(NameInstantiate, "instantiate", "ok"), Al(<<"x">>, "exec", <<OwnZed>>),
                                                Rn(<<"z">>, "sudo", SudoOther), Sh(NameBar, "query", "ok") >>] >>]
Alias2(rev) ==
    LET a == [id |-> "i1", methods |-> << Al(NameFoo, "exec", <<Zed>>), Sh(<<"y">>, "query", "ok") >>]
        b == [id |-> "i2", methods |-> << Al(NameBar, "exec", <<Zed>>), Sh(<<"z">>, "sudo", "ok") >>]
        own == [id |-> "own", methods |-> << Sh(NameInstantiate, "instantiate", "ok"), Sh(<<"x">>, "exec", "ok") >>]
    IN [id |-> IF rev THEN "AL2p" ELSE "AL2", family |-> "aliasshare", overrides |-> {},
        parts |-> IF rev THEN <<b, a, own>> ELSE <<a, b, own>>]

(* attributes forwarded to the message types of a kind that leave the wire format alone: a casing rule for *fields* that is the  *)
(* identity on snake_case names, next to the types' own rule for variant names (C01: the names stay those of the methods; C17) *)
(* ... and handlers that forward a name for the *schema* of their variant (`schemars(rename = ..)`): the wire name is the method's *)
SchemaNamed(m, n) == m @@ [hattr |-> "schemars(rename = \"" \o n \o "\")"]
MsgAttrs1 ==
    [id |-> "MA1", family |-> "shared", overrides |-> {},
     parts |-> << [id |-> "i1", mattrs |-> << [kind |-> "query", text |-> "serde(rename_all_fields = \"snake_case\")"] >>,
                   methods |-> << Sh(NameFoo, "query", "ok"), SchemaNamed(Sh(NameBar, "exec", "ok"), "Zz"), Sh(<<"a","_","b">>, "sudo", "ok") >>],
                  [id |-> "own", mattrs |-> << [kind |-> "exec", text |-> "serde(rename_all_fields = \"snake_case\")"],
                                              [kind |-> "sudo", text |-> "serde(deny_unknown_fields, rename_all_fields = \"snake_case\")"] >>,
                   methods |-> << Sh(NameInstantiate, "instantiate", "ok"), SchemaNamed(Sh(<<"a","_","b">>, "exec", "ok"), "AaBb"),
                                  Sh(<<"x","_","y">>, "query", "ok"), SchemaNamed(Sh(<<"z","_","1">>, "sudo", "ok"), "foo") >>] >>]

(* the declarations on the contract not grouped by kind: an override and other attributes written between the two interface      *)
(* declarations (C14: the order of interface and override declarations does not matter); the twin groups them and lists the        *)
(* interfaces in the opposite order                                                                                                *)
Spread1 ==
    [id |-> "IN1", family |-> "spread", overrides |-> {"sudo"},
     parts |-> << [id |-> "i1", methods |-> << Sh(NameFoo, "exec", "ok"), Sh(NameBar, "query", "ok") >>],
                  [id |-> "i2", methods |-> << Sh(<<"x">>, "exec", "err"), Sh(<<"y">>, "query", "ok"), Sh(<<"z">>, "sudo", "ok") >>],
                  [id |-> "own", methods |-> << Sh(NameInstantiate, "instantiate", "ok"), Sh(<<"a">>, "exec", "ok"), Sh(<<"b">>, "query", "ok") >>] >>]

(* programs that override entry points (C06, C04): one handler of every kind, some kinds served by the user's own functions *)
OvProg(id, ov) ==
    [id |-> id, family |-> "override", overrides |-> ov,
     parts |-> << [id |-> "own", methods |-> << Sh(NameInstantiate, "instantiate", "ok"), Sh(NameFoo, "exec", "ok"),
                                                Sh(NameBar, "query", "ok"), Sh(<<"z">>, "sudo", "err"),
                                                Sh(NameMigrate, "migrate", "ok") >>] >>]
OverrideProgs == << OvProg("O1", {"instantiate"}), OvProg("O2", {"exec"}), OvProg("O3", {"query"}), OvProg("O4", {"sudo"}),
                    OvProg("O5", {"migrate"}), OvProg("O6", {"exec", "sudo"}), OvProg("O7", {"instantiate", "query", "migrate"}),
                    \* the reply entry point served by the user's own function (it takes the chain's Reply, no document: only the build and
                    \* the other kinds are judged on the routing corpus)
                    OvProg("O8", {"reply"}), OvProg("O9", {"migrate", "reply"}) >>

(* programs in which two parts share a wire name (C05): they must not build *)
ColProg(id, a, ka, b, kb, na, nb) ==       \* part a declares na with kind ka, part b declares nb with kind kb
    LET meth(part, name, kind) == IF part = "own" THEN <<>> ELSE <<Sh(name, kind, "ok")>> IN
    [id |-> id, family |-> "collide", overrides |-> {},
     parts |-> << [id |-> "i1", methods |-> (IF a = "i1" THEN <<Sh(na, ka, "ok")>> ELSE <<>>) \o (IF b = "i1" THEN <<Sh(nb, kb, "ok")>> ELSE <<>>)],
                  [id |-> "i2", methods |-> (IF a = "i2" THEN <<Sh(na, ka, "ok")>> ELSE <<>>) \o (IF b = "i2" THEN <<Sh(nb, kb, "ok")>> ELSE <<>>)],
                  [id |-> "own", methods |-> <<Sh(NameInstantiate, "instantiate", "ok")>>
                                             \o (IF a = "own" THEN <<Sh(na, ka, "ok")>> ELSE <<>>) \o (IF b = "own" THEN <<Sh(nb, kb, "ok")>> ELSE <<>>)] >>]
CollideProgs == << ColProg("X1", "i1", "exec", "own", "exec", NameFoo, NameFoo),                       \* contract and interface
                   ColProg("X2", "i1", "sudo", "i2", "sudo", <<"a","_","b">>, <<"a","_","_","b">>),     \* equal only after casing
                   ColProg("X3", "i2", "query", "own", "query", NameBar, NameBar),
                   ColProg("X4", "i1", "exec", "i2", "sudo", NameFoo, NameFoo),
                   \* a *generic* contract sharing a name with its interface, only defined (no entry points, no use): rejected all the same
                   ColProg("X5", "i1", "exec", "own", "exec", NameFoo, NameFoo) @@ [generic |-> TRUE, define_only |-> TRUE] >>                      \* same name, different kinds: no collision

(* the exhaustive small family: every slot holds a subset (<= 1 element) of SmallNames *)
SmallParts == [i \in 1..(Ifaces + 1) |-> IF i = Ifaces + 1 THEN "own" ELSE PartIds[i]]
SmallSlots == (1..(Ifaces + 1)) \X {"exec", "sudo"}
SmallChoice == {{}} \cup {{n} : n \in SmallNames}
SmallProgOf(f, id) ==
    [id |-> id, family |-> "small", overrides |-> {},
     parts |-> [i \in 1..(Ifaces + 1) |->
        [id |-> SmallParts[i],
         methods |-> (IF SmallParts[i] = "own" THEN <<InstMethod(0)>> ELSE <<>>)
                     \o SetToSeq({Mk(n, "exec", 0) : n \in f[<<i, "exec">>]})
                     \o SetToSeq({Mk(n, "sudo", 1) : n \in f[<<i, "sudo">>]})]]]
SmallFs == TLCEval(SetToSeq([SmallSlots -> SmallChoice]))

(* declaration-order twins (C14): interfaces listed in the opposite order, methods of every part reversed *)
PermTwin(p) ==
    LET n == Len(p.parts)
        rev(ms) == [i \in 1..Len(ms) |-> ms[Len(ms) + 1 - i]]
    IN [p EXCEPT !.id = p.id \o "p", !.family = "perm",
                 !.parts = [i \in 1..n |-> IF i = n THEN [p.parts[n] EXCEPT !.methods = rev(p.parts[n].methods)]
                                           ELSE [p.parts[n - i] EXCEPT !.methods = rev(p.parts[n - i].methods)]]]

RawSeq ==      \* all programs of this instance, as a sequence
       [gi \in 1..Len(Groups) |-> CorpusProg(gi)]
    \o [i \in 1..Len(SmallFs) |-> SmallProgOf(SmallFs[i], "m" \o ToString(i))]
    \o <<Shared1, Shared2, Shared3, Nested1, Unicode1, Empty1, CtxKinds1, Wide1, Defaults1, Keywords1, Locals1, Generic1, Generic2, Generic3, PermTwin(Shared1), PermTwin(CorpusProg(1)),
      Alias1, Alias2(FALSE), Alias2(TRUE), MsgAttrs1, Spread1, PermTwin(Spread1)>> \o OverrideProgs \o CollideProgs

(* the table of elaborated programs: the static semantics applied once per program *)
ElabSeq == TLCEval([i \in 1..Len(RawSeq) |-> Elab(RawSeq[i])])
ProgTable == ElabSeq          \* program "ids" of the model are indices into this sequence
CompiledIds == {i \in 1..Len(RawSeq) : RawSeq[i].family \in {"corpus", "shared", "perm", "override", "collide", "generic", "nested", "alias", "aliasshare", "spread"}}

(* ------------------------------------------------------------ documents *)
(* long documents (a body of ~1.2 kB of four-byte characters after 0..3 one-byte characters: whatever byte offset a *)
(* decoder cuts or inspects the text at, one of the four variants has a character straddling it)                    *)
LongBodies == {"utf8pad0", "utf8pad1", "utf8pad2", "utf8pad3"}
(* "__phantom": the name under which the hidden variant of a generic message type would be known if it were not skipped *)
KeyUniverse(q) == EWireUniverse(q) \cup EArgUniverse(q) \cup {"zz_unknown", "__phantom"}
DocsFor(q) ==
  UNION {
       {[shape |-> "obj1", key |-> k, body |-> b, path |-> pa] : k \in KeyUniverse(q), b \in {"exact", "missing", "wrongtype", "extra", "notobj", "dropdefault", "null"} \cup LongBodies}
  \cup {[shape |-> s, key |-> k, body |-> "exact", path |-> pa] : s \in {"obj2", "dup"}, k \in EWireUniverse(q)}
  \cup {[shape |-> "obj0", key |-> "", body |-> "none", path |-> pa], [shape |-> "nonobj", key |-> "", body |-> "none", path |-> pa]}
  \cup {[shape |-> "flat", key |-> k, body |-> b, path |-> pa] : k \in {"instantiate", "migrate"}, b \in {"exact", "dropdefault"}}
  : pa \in (IF q.family = "small" THEN {"ep"} ELSE {"ep", "mt"}) }
DocTable == TLCEval([id \in DOMAIN ProgTable |-> DocsFor(ProgTable[id])])

(* ---------------------------------------------------------------- model *)
VARIABLES prog, pv, stage, ep, doc, dec, ran, res, origin
INSTANCE Runtime WITH Programs <- ProgTable

Init ==
    /\ prog \in DOMAIN ProgTable
    /\ pv = <<>>
    /\ stage = "fresh"
    /\ ep = "none" /\ doc = NoDoc /\ dec = NoDec /\ ran = <<>> /\ res = "none" /\ origin = Chain

Next ==
    \/ Expand
    \/ /\ stage = "idle"          \* deliveries are independent: one per behaviour
       /\ \E k \in Kinds \ {"reply"} : \E d \in DocTable[prog] : Deliver(k, d)
    \/ /\ stage = "idle"
       /\ \E i \in 1..Len(P.parts) : \E m \in Range(P.parts[i].methods) : RemoteSend(i, m)
    \/ (\E o \in Oracles(P, ep, doc) : WrapperDecode(o))
    \/ (\E v \in {"ok", "err"} : StructVerdictOk(v) /\ StructDecode(v))
    \/ (\E v \in {"ok", "err"} : OverrideDecode(v)) \/ OverrideRun
    \/ AbsentReject
    \/ Dispatch \/ Return

Spec == Init /\ [][Next]_rvars
FairSpec == Spec /\ WF_rvars((\E o \in Oracles(P, ep, doc) : WrapperDecode(o)) \/ (\E v \in {"ok", "err"} : StructVerdictOk(v) /\ StructDecode(v))
                               \/ (\E v \in {"ok", "err"} : OverrideDecode(v)) \/ OverrideRun \/ AbsentReject \/ Dispatch \/ Return)

(* rejected programs are exactly the colliding / ill-structured ones *)
RejectedIffInvalid == (stage = "rejected") => ~P.accepted

-----------------------------------------------------------------------------
(* Emission of the corpus (programs elaborated by the static semantics, and *)
(* the documents to deliver) for the generator and the trace specification. *)
EnumMs(q) == {x \in (1..Len(q.parts)) \X (1..(PerProg + 3)) :
                 x[2] <= Len(q.parts[x[1]].methods) /\ q.parts[x[1]].methods[x[2]].kind \in EnumKinds}
StructMs(q) == {x \in (1..Len(q.parts)) \X (1..(PerProg + 3)) :
                 x[2] <= Len(q.parts[x[1]].methods) /\ q.parts[x[1]].methods[x[2]].kind \in {"instantiate", "migrate"}}
(* every kind something can be delivered to: the emitted entry points, the overridden kinds (through the multitest impl),
   and migrate -- which the multitest impl has even when the contract has no migrate handler *)
Eps(q) == (Range(q.ep_kinds) \cup Range(q.overrides) \cup {"migrate"}) \ {"reply"}
M(q, x) == q.parts[x[1]].methods[x[2]]
St(e, sh, key, body, part, meth, v) ==
    [ep |-> e, shape |-> sh, key |-> key, body |-> body, part |-> part, method |-> meth, val |-> v]
(* the paths a stimulus is delivered through: the generated entry point (absent for an overridden kind) and the multitest impl *)
ViasOf(q, st) == IF st.ep \in Range(q.overrides) \/ st.ep \notin Range(q.ep_kinds) THEN <<"mt">> ELSE <<"ep", "mt">>
FirstWires(q, k) ==
    LET l == SetToSeq({w \in EWireUniverse(q) : \E i \in 1..Len(q.parts) : w \in EWireNames(q.parts[i], k)})
    IN SubSeq(l, 1, IF Len(l) < 2 THEN Len(l) ELSE 2)
StimSet(q) ==
    \* every well-formed message of every part, delivered to every entry point (C01-C04)
       {St(e, "obj1", M(q, x).wire, "exact", q.parts[x[1]].id, M(q, x).name, Mod(M(q, x).h, 2)) : x \in EnumMs(q), e \in Eps(q)}
    \* malformed bodies for about every third handler (chosen by name, not by position), at its own entry point
  \cup {St(M(q, x).kind, "obj1", M(q, x).wire, b, q.parts[x[1]].id, M(q, x).name, 0) :
           x \in {y \in EnumMs(q) : Mod(M(q, y).h, 3) = 1}, b \in {"missing", "wrongtype", "extra", "notobj"}}
    \* the arguments carrying a default left out, at the handler's own entry point (C17)
  \cup {St(M(q, x).kind, "obj1", M(q, x).wire, "dropdefault", q.parts[x[1]].id, M(q, x).name, 0) :
           x \in {y \in EnumMs(q) : \E i \in 1..Len(M(q, y).args) : M(q, y).args[i].t \in DefaultTypes}}
  \cup {St(M(q, x).kind, "flat", M(q, x).kind, "dropdefault", q.parts[x[1]].id, M(q, x).name, 0) :
           x \in {y \in StructMs(q) : M(q, y).kind \in Eps(q) /\ \E i \in 1..Len(M(q, y).args) : M(q, y).args[i].t \in DefaultTypes}}
    \* the other spelling of the name (convert_case's snake case of the variant), where it differs
  \cup {St(M(q, x).kind, "obj1", M(q, x).near, "exact", q.parts[x[1]].id, M(q, x).name, 0) :
           x \in {y \in EnumMs(q) : M(q, y).near # M(q, y).wire}}
    \* the message under each of its further names (forwarded serde aliases), at its own entry point
  \cup UNION {{St(M(q, x).kind, "obj1", a, "exact", q.parts[x[1]].id, M(q, x).name, 1) : a \in Range(M(q, x).aliases)} : x \in EnumMs(q)}
    \* (the name derived from the method, which a forwarded rename replaces, is the `near` spelling above: no wire name any more)
    \* flat struct messages at every entry point
  \cup {St(e, "flat", M(q, x).kind, "exact", q.parts[x[1]].id, M(q, x).name, 1) : x \in StructMs(q), e \in Eps(q)}
    \* ... and *tagged* with the name of their handler, the way the messages of the other kinds are written, at the entry points of those
    \* kinds (C04: no such document reaches an instantiate or migrate handler; where a handler of that kind carries the same name the
    \* document is that handler's own message and is left out)
  \cup {St(e, "obj1", M(q, x).wire, "exact", q.parts[x[1]].id, M(q, x).name, 1) :
           x \in {y \in StructMs(q) : \A z \in EnumMs(q) : M(q, z).wire # M(q, y).wire /\ M(q, z).name # M(q, y).name}, e \in Eps(q) \cap EnumKinds}
    \* unknown names and degenerate shapes
  \cup {St(e, "obj1", "zz_unknown", "exact", "", "", 0) : e \in Eps(q)}
  \cup {St(e, "obj1", "zz_unknown", b, "", "", 0) : e \in Eps(q) \cap EnumKinds, b \in LongBodies}
    \* names a generated message type might know besides its handlers' (the hidden variant of generic messages), with a null and an object body
  \cup {St(e, "obj1", "__phantom", b, "", "", 0) : e \in Eps(q) \cap EnumKinds, b \in {"null", "exact"}}
  \cup {St(e, "obj0", "", "none", "", "", 0) : e \in Eps(q)}
  \cup {St(e, "nonobj", n, "none", "", "", 0) : e \in Eps(q), n \in {"array", "string", "number", "bool", "null"}}
    \* a bare JSON string that spells the name of a message, at that message's own entry point: no object, so no part accepts it
  \cup {St(M(q, x).kind, "nonobj", "name:" \o M(q, x).wire, "none", "", "", 0) :
           x \in {y \in EnumMs(q) : Len(M(q, y).args) = 0 \/ Mod(M(q, y).h, 4) = 0}}
  \cup {St(e, "obj2", FirstWires(q, e)[1], "exact", "", "", 0) : e \in {k \in Eps(q) \cap EnumKinds : Len(FirstWires(q, k)) = 2}}
  \cup {St(e, "dup", FirstWires(q, e)[1], "exact", "", "", 0) : e \in {k \in Eps(q) \cap EnumKinds : Len(FirstWires(q, k)) >= 1}}

B == INSTANCE BuilderOps
BuilderRuns(q) == IF q.family # "shared" THEN <<>>
                  ELSE SetToSeq(B!Runs("exec", BuilderSets)) \o SetToSeq(B!Runs("inst", BuilderSets))
(* programs whose generated multitest proxies are exercised by operation histories (C12, MC_Multitest) *)
MtIds == {"S1", "R1", "R2", "R4", "A1", "W1", "K1", "L1"}        \* (R4: its migrate handler fails)
EmitProg(q) == q @@ [builder |-> BuilderRuns(q), mt |-> q.id \in MtIds] @@ [stim |-> LET ss == SetToSeq(StimSet(q)) IN [i \in 1..Len(ss) |-> ss[i] @@ [vias |-> ViasOf(q, ss[i])]]]

EmitCorpus ==
    LET out == IOEnv.VERIF_OUT
        seq == SetToSeq({EmitProg(ProgTable[id]) : id \in CompiledIds})
    IN  /\ TLCGet("stats").generated > 0
        /\ ndJsonSerialize(out, seq)
        /\ PrintT(<<"CORPUS", Len(seq), "names", Cardinality(NameUniverse)>>)

-----------------------------------------------------------------------------
(* design lemmas evaluated once (constant level) *)
LemmaC01Naming == \A n \in NameUniverse : IsShapeName(n) => WireDef(n) = n
LemmaListsSorted ==
    \A id \in {i \in CompiledIds : RawSeq[i].family \notin {"override", "collide", "aliasshare"}} : \A i \in 1..Len(RawSeq[id].parts) : \A k \in EnumKinds :
        LET l == NameListC(RawSeq[id].parts[i], k) IN \A x \in 1..(Len(l) - 1) : NameLess(l[x], l[x + 1])
LemmaCorpusAccepted == \A id \in CompiledIds : ProgTable[id].accepted = (RawSeq[id].family \notin {"collide", "aliasshare"} \/ RawSeq[id].id = "X4")
LemmaCorpusCoversUniverse ==
    {Str(n) : n \in NameUniverse} =
        UNION {{m.name : m \in {x \in EAllMethods(ProgTable[id]) : x.kind \in EnumKinds}} :
                   id \in {i \in CompiledIds : RawSeq[i].family = "corpus"}}

ASSUME LemmaC01Naming
ASSUME LemmaListsSorted
ASSUME LemmaCorpusAccepted
ASSUME LemmaCorpusCoversUniverse
=============================================================================
