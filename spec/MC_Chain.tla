----------------------------- MODULE MC_Chain -----------------------------
(***************************************************************************)
(* Bounded instance of the chain machine (Chain.tla) over exactly the      *)
(* reply programs that are compiled: the table MC_Reply wrote.             *)
(***************************************************************************)
EXTENDS Reply, Json, IOUtils

CONSTANT MaxCount          \* transactions per behaviour are bounded by the committed write counter

Progs == ndJsonDeserialize(IOEnv.VERIF_PROGS)
VARIABLES pi, cst, tx, sres, rout, store, pstore, fin
INSTANCE Chain

Init == /\ pi \in {i \in 1..Len(Progs) : ~Legacy(Progs[i])}
        /\ cst = "idle" /\ tx = NoTx /\ sres = NoSres /\ rout = NoRout /\ store = Store0 /\ pstore = Store0 /\ fin = NoFin
Next ==
    \/ /\ store.count < MaxCount
       /\ \E h \in AllHandlers(Pr), k \in ChainKinds : \E m \in ChainModes(k) : Fire(h, k, m)
    \/ Build \/ SubRun \/ ChainRoute \/ ReplyDispatchC \/ Finish
Spec == Init /\ [][Next]_cvars
FairSpec == Spec /\ WF_cvars(Build \/ SubRun \/ ChainRoute \/ ReplyDispatchC \/ Finish)
(* the history-free part of the state: which transactions were run does not matter for what the next one does *)
View == <<pi, cst, tx, sres, rout, store.mark, store.callee % 2, pstore.mark, fin, store.count>>
=============================================================================
