CONSTANTS
  PtChoices = 3
  GenParams = 3
INIT Init
NEXT Next
INVARIANTS C06_OverrideIsLocal C15_UsedIsUnionOfMentions
POSTCONDITION EmitItems
CHECK_DEADLOCK FALSE
