---------------------------- MODULE Trace_Tables ----------------------------
(* Accept / reject verdict of the real contract macro on every small reply   *)
(* table (Expand events of the in-process harness) against Reply!ValidTable. *)
EXTENDS Reply, Json, IOUtils, TraceCommon

Tables == ndJsonDeserialize(IOEnv.VERIF_PROGS)
Rec    == ndJsonDeserialize(IOEnv.VERIF_TRACE)
VARIABLE l
E == Rec[l]
TableOf(id) == Tables[CHOOSE i \in 1..Len(Tables) : Tables[i].id = id]
Known(id) == \E i \in 1..Len(Tables) : Tables[i].id = id

TInit == l = 1 /\ TLCSet(1, 1)
TrExpand ==
    /\ l <= Len(Rec) /\ E.ev = "Expand"
    /\ Chk("BIND", "table_is_known", l, Known(E.id))
    /\ LET t == TableOf(E.id)
           valid == ValidTable(t) /\ NoDuplicateHandlerInOneMethod(t)
       IN /\ Chk("BIND", "emitted_verdict_is_the_specifications", l, valid = t.valid)
          /\ Chk("C18", "expansion_never_crashes", l, E.verdict \in {"clean", "dirty"})
          /\ Chk("C18", "a_table_breaking_a_documented_rule_is_rejected_with_a_diagnostic", l, ~valid => E.verdict = "dirty")
          /\ Chk("C18", "a_table_obeying_the_rules_is_accepted", l, valid => E.verdict = "clean")
          \* ValidTable does not depend on declaration order (MC_Reply!LemmaOrderIndependent), and every
          \* permutation of every table is in the family: agreement with it is order independence of acceptance
          /\ Chk("C14", "acceptance_does_not_depend_on_declaration_order", l, (E.verdict = "clean") = valid)
    /\ l' = l + 1 /\ TLCSet(1, l + 1)
TSpec == TInit /\ [][TrExpand]_l
TraceAccepted ==
    LET reached == TLCGet(1) IN
    IF reached = Len(Rec) + 1 THEN TRUE ELSE Print(<<"UNMATCHED", reached, Rec[reached].id>>, FALSE)
=============================================================================
