CONSTANTS
  Alphabet = {"a", "b", "1", "_"}
  NameLen = 2
  PerProg = 27
  SmallNames <- SmallNamesQuick
  Ifaces = 2
  BuilderSets = 1
  Variant <- VariantFast
  Wire <- WireFast
  Near <- NearFast
SPECIFICATION FairSpec
PROPERTIES Answered
CHECK_DEADLOCK FALSE
