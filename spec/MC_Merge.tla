----------------------------- MODULE MC_Merge -----------------------------
(* Bounded instance of Merge.tla: every tuple of at most MaxN sorted,     *)
(* duplicate-free lists of length at most MaxLen over S ordered tokens.   *)
EXTENDS Merge, SequencesExt, FiniteSetsExt, TLC, Json, IOUtils

CONSTANTS MaxN, MaxLen, S

Tokens == 1..S
SortedLists == { SetToSortSeq(T, <) : T \in { U \in SUBSET Tokens : Cardinality(U) <= MaxLen } }
TuplesOf(n) == [1..n -> SortedLists]
AllTuples == UNION { TuplesOf(n) : n \in 1..MaxN }

Init == \E ls \in AllTuples : MInit(ls)
Next == MNext
Spec == Init /\ [][Next]_mvars
FairSpec == Spec /\ WF_mvars(Next)

(* each loop iteration consumes one element, so the scan is bounded *)
TotalLen == LET R[i \in 0..N] == IF i = 0 THEN 0 ELSE R[i - 1] + Len(L[i]) IN R[N]
BoundedWork == (pc # "init" /\ pc # "done") => Remaining <= TotalLen

(* stimuli: every tuple this instance starts from, for replay into the real function *)
EmitStimuli ==
    LET out == IOEnv.VERIF_OUT
        seq == SetToSeq({ [lists |-> t] : t \in AllTuples })
    IN  /\ TLCGet("stats").generated > 0      \* (keeps TLC from pre-evaluating this as a constant)
        /\ ndJsonSerialize(out, seq)
        /\ PrintT(<<"STIMULI", Len(seq)>>)
=============================================================================
