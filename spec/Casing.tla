------------------------------- MODULE Casing -------------------------------
(***************************************************************************)
(* Identifier casing as the macros use it.  Names are sequences of         *)
(* one-character strings (TLC cannot index into strings); Str turns one    *)
(* into a string for comparison with observations.                         *)
(*                                                                         *)
(*  Words       convert_case 0.8 `split` with the nine default boundaries, *)
(*              tried in order at every position, empty words dropped      *)
(*  UpperCamel  method name -> variant identifier   (pattern `capital`)    *)
(*  CcSnake     convert_case's snake_case of an identifier                 *)
(*  UpperSnake  convert_case's UPPER_SNAKE (reply id constants)            *)
(*  SerdeSnake  serde's rename_all = "snake_case" applied to a variant     *)
(*  Wire        the name a handler's message is sent under                 *)
(***************************************************************************)
EXTENDS Naturals, Sequences, SequencesExt, FiniteSets

(* the ASCII letters, and one cased letter outside ASCII (legal in Rust identifiers): convert_case treats it like any *)
(* other letter (Unicode case mapping), serde's rename rule sees that it is upper case but lowers ASCII letters only  *)
LowerSeq == <<"a","b","c","d","e","f","g","h","i","j","k","l","m","n","o","p","q","r","s","t","u","v","w","x","y","z","é">>
UpperSeq == <<"A","B","C","D","E","F","G","H","I","J","K","L","M","N","O","P","Q","R","S","T","U","V","W","X","Y","Z","É">>
DigitSeq == <<"0","1","2","3","4","5","6","7","8","9">>
Lower == {LowerSeq[i] : i \in 1..27}
Upper == {UpperSeq[i] : i \in 1..27}
AsciiLo(c) == IF c \in Upper /\ c # "É" THEN LowerSeq[CHOOSE i \in 1..26 : UpperSeq[i] = c] ELSE c
Digit == {DigitSeq[i] : i \in 1..10}

IndexIn(s, c) == CHOOSE i \in 1..Len(s) : s[i] = c
Up(c) == IF c \in Lower THEN UpperSeq[IndexIn(LowerSeq, c)] ELSE c
Lo(c) == IF c \in Upper THEN LowerSeq[IndexIn(UpperSeq, c)] ELSE c
UpAll(w) == [i \in 1..Len(w) |-> Up(w[i])]
LoAll(w) == [i \in 1..Len(w) |-> Lo(w[i])]

(* byte order of the characters that can occur in identifiers *)
Rank(c) == IF c = "É" THEN 190 ELSE IF c = "é" THEN 200            \* two-byte UTF-8 sequences (C3 89 < C3 A9): above all of ASCII
           ELSE IF c \in Digit THEN IndexIn(DigitSeq, c)                 \* '0'..'9'  48..57
           ELSE IF c \in Upper THEN 20 + IndexIn(UpperSeq, c)       \* 'A'..'Z'  65..90
           ELSE IF c = "_" THEN 50                                  \* '_'       95
           ELSE 60 + IndexIn(LowerSeq, c)                           \* 'a'..'z'  97..122

RECURSIVE NameLess(_, _)
NameLess(a, b) ==      \* strict byte-wise (lexicographic) order, as `str::cmp` / `konst::cmp_str`
    IF Len(a) = 0 THEN Len(b) > 0
    ELSE IF Len(b) = 0 THEN FALSE
    ELSE IF Rank(a[1]) < Rank(b[1]) THEN TRUE
    ELSE IF Rank(a[1]) > Rank(b[1]) THEN FALSE
    ELSE NameLess(Tail(a), Tail(b))

Str(n) == FoldLeft(LAMBDA acc, c : acc \o c, "", n)

-----------------------------------------------------------------------------
(* convert_case::boundary::split with Boundary::defaults()                  *)
(* order: UNDERSCORE, HYPHEN, SPACE, LOWER_UPPER, LOWER_DIGIT, UPPER_DIGIT,  *)
(*        DIGIT_LOWER, DIGIT_UPPER, ACRONYM  (first match wins at each i)    *)
At(n, i) == IF i <= Len(n) THEN n[i] ELSE ""
IsConsuming(n, i) == At(n, i) \in {"_", "-", " "}
CutsAfter(n, i) ==
    LET a == At(n, i)  b == At(n, i + 1)  c == At(n, i + 2) IN
    \/ a \in Lower /\ b \in Upper          \* LOWER_UPPER
    \/ a \in Lower /\ b \in Digit          \* LOWER_DIGIT
    \/ a \in Upper /\ b \in Digit          \* UPPER_DIGIT
    \/ a \in Digit /\ b \in Lower          \* DIGIT_LOWER
    \/ a \in Digit /\ b \in Upper          \* DIGIT_UPPER
    \/ a \in Upper /\ b \in Upper /\ c \in Lower   \* ACRONYM

RECURSIVE SplitFrom(_, _, _, _)
SplitFrom(n, i, lastEnd, words) ==       \* lastEnd: first position of the word being collected
    IF i > Len(n) THEN Append(words, SubSeq(n, lastEnd, Len(n)))
    ELSE IF IsConsuming(n, i)
         THEN SplitFrom(n, i + 1, i + 1, Append(words, SubSeq(n, lastEnd, i - 1)))
         ELSE IF CutsAfter(n, i)
              THEN SplitFrom(n, i + 1, i + 1, Append(words, SubSeq(n, lastEnd, i)))
              ELSE SplitFrom(n, i + 1, lastEnd, words)

Words(n) == IF Len(n) = 0 THEN <<>>
            ELSE SelectSeq(SplitFrom(n, 1, 1, <<>>), LAMBDA w : Len(w) > 0)

Capital(w) == [i \in 1..Len(w) |-> IF i = 1 THEN Up(w[i]) ELSE Lo(w[i])]

Concat(ws) == FoldLeft(LAMBDA acc, w : acc \o w, <<>>, ws)
JoinWith(d, ws) == IF Len(ws) = 0 THEN <<>>
                   ELSE FoldLeft(LAMBDA acc, w : acc \o <<d>> \o w, ws[1], Tail(ws))

UpperCamel(n) == Concat([i \in 1..Len(Words(n)) |-> Capital(Words(n)[i])])
CcSnake(n)    == JoinWith("_", [i \in 1..Len(Words(n)) |-> LoAll(Words(n)[i])])
UpperSnake(n) == JoinWith("_", [i \in 1..Len(Words(n)) |-> UpAll(Words(n)[i])])

(* serde_derive::internals::case::RenameRule::SnakeCase.apply_to_variant *)
(* (`ch.is_uppercase()` is Unicode-aware, `ch.to_ascii_lowercase()` is not) *)
SerdeSnake(v) == Concat([i \in 1..Len(v) |-> IF i > 1 /\ v[i] \in Upper THEN <<"_", AsciiLo(v[i])>> ELSE <<AsciiLo(v[i])>>])

VariantDef(n) == UpperCamel(n)              \* the enum variant generated for method n
WireDef(n)    == SerdeSnake(VariantDef(n))  \* the JSON key it is sent under
NearDef(n)    == CcSnake(VariantDef(n))     \* convert_case's own snake_case of the variant
(* bounded instances may override these three with a precomputed table of the Def versions *)
Variant(n) == VariantDef(n)
Wire(n)    == WireDef(n)
Near(n)    == NearDef(n)
ReplyConst(h) == UpperSnake(h) \o <<"_","R","E","P","L","Y","_","I","D">>

-----------------------------------------------------------------------------
(* The shape of names C01 quantifies over: lower-case words, each optionally *)
(* ending in digits, joined by single underscores.                           *)
IsShapeWord(w) ==
    /\ Len(w) > 0
    /\ w[1] \in Lower
    /\ \A i \in 1..Len(w) : w[i] \in Lower \cup Digit
    /\ \A i \in 1..(Len(w) - 1) : w[i] \in Digit => w[i + 1] \in Digit

RECURSIVE SplitUnderscore(_, _, _)
SplitUnderscore(n, i, cur) ==      \* plain split at "_", empty pieces kept
    IF i > Len(n) THEN <<cur>>
    ELSE IF n[i] = "_" THEN <<cur>> \o SplitUnderscore(n, i + 1, <<>>)
    ELSE SplitUnderscore(n, i + 1, Append(cur, n[i]))

IsShapeName(n) ==
    /\ Len(n) > 0
    /\ \A w \in {SplitUnderscore(n, 1, <<>>)[i] : i \in 1..Len(SplitUnderscore(n, 1, <<>>))} : IsShapeWord(w)

(* a legal Rust identifier over the modelled alphabet that is usable as a method name *)
IsIdent(n) ==
    /\ Len(n) > 0
    /\ n[1] \notin Digit
    /\ \E i \in 1..Len(n) : n[i] # "_"
    /\ \A i \in 1..Len(n) : n[i] \in Lower \cup Upper \cup Digit \cup {"_"}

(* all names over alphabet A of length 1..k *)
NamesUpTo(A, k) == UNION { [1..j -> A] : j \in 1..k }

LemmaShapeWire(A, k) == \A n \in NamesUpTo(A, k) : IsShapeName(n) => Wire(n) = n
=============================================================================
