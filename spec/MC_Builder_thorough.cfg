CONSTANT MaxSets = 5
SPECIFICATION BSpec
INVARIANTS C10_BuiltFromLastSet
PROPERTIES C10_SettersAreIndependent
POSTCONDITION NonVacuous
CHECK_DEADLOCK FALSE
