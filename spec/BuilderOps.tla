---------------------------- MODULE BuilderOps ----------------------------
(***************************************************************************)
(* The message builders behind the remote helpers (C10): the executor      *)
(* builder (`Remote::executor()`: with_funds, then an exec helper, build)  *)
(* and the instantiate builder (with_label / with_admin / with_funds, then *)
(* build or build2).  A builder is a small state machine: every setter     *)
(* overwrites its field, and the built message carries, for every field,   *)
(* the value set last -- or the default when it never was set.             *)
(*                                                                         *)
(* Values are abstract codes (strings); FundsOf gives the coins of a funds *)
(* code, in the order they were handed to the builder.                     *)
(***************************************************************************)
EXTENDS Naturals, Sequences, FiniteSets, TLC

Targets == {"exec", "inst"}
FieldsOf(t) == IF t = "exec" THEN {"funds"} ELSE {"funds", "label", "admin"}
(* (a label / admin with surrounding white space is a value like any other: it is carried as given) *)
ValuesOf(f) == CASE f = "funds" -> {"0", "1", "2"} [] f = "label" -> {"lbl", " l 2 "} [] OTHER -> {"adm", " a2\t"}
FinsOf(t) == IF t = "exec" THEN {"build"} ELSE {"build", "build2"}
Setters(t) == UNION {{[f |-> f, v |-> v] : v \in ValuesOf(f)} : f \in FieldsOf(t)}

NoBuilder == [target |-> "none", funds |-> "0", label |-> "", admin |-> ""]
New(t) == [NoBuilder EXCEPT !.target = t]
Set(b, f, v) == [b EXCEPT ![f] = v]

FundsOf(code) == CASE code = "0" -> <<>>
                   [] code = "1" -> << <<"atom", "5">> >>
                   [] OTHER      -> << <<"zeta", "1">>, <<"atom", "2">> >>        \* not in alphabetical order: kept as given
NoMsg == [kind |-> "none", funds |-> <<>>, label |-> "", admin |-> "", salted |-> FALSE]
Msg(b, fin) ==
    [kind   |-> IF b.target = "exec" THEN "execute" ELSE IF fin = "build2" THEN "instantiate2" ELSE "instantiate",
     funds  |-> FundsOf(b.funds),
     label  |-> IF b.target = "exec" THEN "" ELSE b.label,      \* empty when unset
     admin  |-> IF b.target = "exec" THEN "" ELSE b.admin,      \* none when unset
     salted |-> fin = "build2"]

(* every run of a builder with at most n setters: the stimuli replayed against the real builders *)
Runs(t, n) == UNION {{[target |-> t, sets |-> q, fin |-> fin] : q \in [1..k -> Setters(t)], fin \in FinsOf(t)} : k \in 0..n}
=============================================================================
