------------------------------ MODULE MC_Remote ------------------------------
EXTENDS RemoteHandle, FiniteSets, Json, IOUtils, SequencesExt
CONSTANT NAddr          \* addresses 1..8 are a fixed pool of awkward strings, the rest are seeded random strings
Handles == [ty : TypeParams, owned : BOOLEAN, addr : 1..NAddr]
Init == h \in Handles /\ stage = "handle" /\ enc = <<>> /\ back = <<>>
Next == Encode \/ \E ty \in TypeParams : Decode(ty)
Spec == Init /\ [][Next]_hvars
TypeIndependence == C20_TypeIndependent(Handles)
ASSUME TypeIndependence
ASSUME C20_OneDefinition(Handles)
Emit ==
    /\ TLCGet("stats").generated > 0
    /\ ndJsonSerialize(IOEnv.VERIF_OUT, SetToSeq(Handles))
    /\ PrintT(<<"HANDLES", Cardinality(Handles)>>)
=============================================================================
