CONSTANTS
  MaxM = 2
  Stride = 4
INIT Init
NEXT Next
INVARIANTS C07_DeclaredMethodRuns C07_UncoveredOutcomeActsAsNoReply C07_UnknownIdIsError C08_RequestedRepliesAreHandled C09_NoHandlerOnBadData C06_LegacyReplyAlwaysRuns C07_UncoveredIgnoresPayload C08_MethodNeedsDecodablePayload
POSTCONDITION EmitTables
CHECK_DEADLOCK FALSE
