CONSTANTS
  MaxCount = 4
SPECIFICATION Spec
INVARIANTS C08_ChainNoReplyInVain C08_ChainCoveredOutcomeIsAnswered C07_ChainUncoveredActsAsNoReply C07_ChainMethodOutcomeDecides C09_ChainBadDataFailsTransaction
PROPERTIES AtomicFailure
CHECK_DEADLOCK FALSE
