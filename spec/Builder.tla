------------------------------ MODULE Builder ------------------------------
(* The builders of BuilderOps as a state machine, and what C10 says about it. *)
EXTENDS BuilderOps
CONSTANT MaxSets
VARIABLES bld,    \* the builder
          sets,   \* the setters applied to it, in order
          msg     \* the message built from it
bvars == <<bld, sets, msg>>

BInit == bld = NoBuilder /\ sets = <<>> /\ msg = NoMsg
BNew(t) == /\ bld.target = "none" /\ bld' = New(t) /\ sets' = <<>> /\ msg' = NoMsg
BSet(s) == /\ bld.target # "none" /\ msg = NoMsg /\ s \in Setters(bld.target) /\ Len(sets) < MaxSets
           /\ bld' = Set(bld, s.f, s.v) /\ sets' = Append(sets, s) /\ UNCHANGED msg
BBuild(fin) == /\ bld.target # "none" /\ msg = NoMsg /\ fin \in FinsOf(bld.target)
               /\ msg' = Msg(bld, fin) /\ UNCHANGED <<bld, sets>>
BNext == (\E t \in Targets : BNew(t)) \/ (\E s \in Setters("inst") : BSet(s)) \/ (\E fin \in {"build", "build2"} : BBuild(fin))
BSpec == BInit /\ [][BNext]_bvars

(* C10: the built message carries what was set last on the builder (funds, label, admin), the default otherwise *)
LastSet(f) == LET ix == {i \in 1..Len(sets) : sets[i].f = f}
              IN IF ix = {} THEN NoBuilder[f] ELSE sets[CHOOSE i \in ix : \A j \in ix : j <= i].v
C10_BuiltFromLastSet ==
    msg # NoMsg =>
        /\ msg.funds = FundsOf(LastSet("funds"))
        /\ bld.target = "inst" => msg.label = LastSet("label") /\ msg.admin = LastSet("admin")
        /\ msg.kind = (IF bld.target = "exec" THEN "execute" ELSE IF msg.salted THEN "instantiate2" ELSE "instantiate")
(* a setter touches its own field only *)
C10_SettersAreIndependent ==
    [][\A s \in Setters("inst") : BSet(s) => \A f \in {"funds", "label", "admin"} \ {s.f} : bld'[f] = bld[f]]_bvars

=============================================================================
