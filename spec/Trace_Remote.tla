----------------------------- MODULE Trace_Remote -----------------------------
(* RemoteEnc events (the real Remote<T> encoded / decoded / schema) against RemoteHandle.tla *)
EXTENDS RemoteHandle, Json, IOUtils, TraceCommon
Rec == ndJsonDeserialize(IOEnv.VERIF_TRACE)
VARIABLES l, schema0
tvars == <<h, stage, enc, back, l, schema0>>
E == Rec[l]
TInit == l = 1 /\ schema0 = <<>> /\ h = [ty |-> "", owned |-> TRUE, addr |-> 0] /\ stage = "handle" /\ enc = <<>> /\ back = <<>> /\ TLCSet(1, 1)
TrRemoteEnc ==
    /\ l <= Len(Rec) /\ E.ev = "RemoteEnc"
    \* the three steps of the machine for this handle: make it, encode it, decode the prescribed literal
    /\ h' = [ty |-> E.ty, owned |-> E.owned, addr |-> E.aix]
    /\ enc' = Enc(h') /\ back' = Dec(enc', E.ty) /\ stage' = "decoded"
    /\ Chk("C20", "handle_encodes", l, E.enc_ok)
    /\ Chk("C20", "encoding_is_the_single_member_addr_holding_the_address_string", l, E.json = EncJson(E.addr))
    /\ Chk("C20", "decoding_the_prescribed_json_gives_a_handle_to_the_same_address", l, E.dec_ok /\ E.dec_addr = E.addr)
    /\ Chk("C20", "decoding_its_own_encoding_gives_the_same_address", l, E.round_ok /\ E.round_addr = E.addr)
    \* a handle that was decoded encodes like one that was built: from the prescribed JSON, and (when such a document is accepted at all)
    \* from a document with further members next to `addr`
    /\ Chk("C20", "a_decoded_handle_encodes_as_the_single_member_addr", l,
           /\ (E.dec_ok => E.dec_json = EncJson(E.addr))
           /\ (E.loose_ok => (E.loose_addr = E.addr /\ E.loose_json = EncJson(E.addr))))
    /\ Chk("C20", "schema_name_does_not_depend_on_the_type_parameter", l,
           schema0 # <<>> => (E.schema_name = schema0.name /\ E.schema_props = schema0.props /\ E.schema_required = schema0.required))
    /\ Chk("C20", "schema_describes_the_single_member_addr", l, E.schema_props = <<"addr">> /\ E.schema_required = <<"addr">>)
    /\ schema0' = IF schema0 = <<>> THEN [name |-> E.schema_name, props |-> E.schema_props, required |-> E.schema_required] ELSE schema0
    /\ l' = l + 1 /\ TLCSet(1, l + 1)
(* the schema of a state holding handles of every kind, generated in one run *)
TrRemoteStore ==
    /\ l <= Len(Rec) /\ E.ev = "RemoteStore"
    /\ Chk("C20", "handles_of_all_kinds_share_one_schema_definition", l,
           /\ Len(E.refs) = E.fields
           /\ \A i, j \in 1..Len(E.refs) : E.refs[i] = E.refs[j])
    /\ Chk("C20", "that_definition_has_the_type_independent_schema_name", l,
           schema0 # <<>> => (\A i \in 1..Len(E.refs) : E.refs[i] = "#/definitions/" \o schema0.name)
                             /\ (\E i \in 1..Len(E.defs) : E.defs[i] = schema0.name))
    /\ l' = l + 1 /\ TLCSet(1, l + 1)
    /\ UNCHANGED <<h, stage, enc, back, schema0>>
TSpec == TInit /\ [][TrRemoteEnc \/ TrRemoteStore]_tvars
TraceAccepted ==
    LET reached == TLCGet(1) IN
    IF reached = Len(Rec) + 1 THEN TRUE ELSE Print(<<"UNMATCHED", reached, Rec[reached]>>, FALSE)
=============================================================================
