------------------------------- MODULE Bridge -------------------------------
(***************************************************************************)
(* Bridging a response written for the empty custom types into a contract  *)
(* that uses chain-custom message types (sylvia::into_response) -- C11.    *)
(* A response: [msgs (seq of [kind, prof]), attrs, events, data]           *)
(*   data: one of DataShapes (present-but-empty data is not absent data)   *)
(*   kind: which chain module the sub-message is for; "custom" is the      *)
(*         (uninhabited in practice) custom message of the empty type      *)
(*   prof: a profile of (id, gas limit, reply trigger, payload)            *)
(***************************************************************************)
EXTENDS Naturals, Sequences, FiniteSets, TLC

(* the data of a response: absent, present without bytes, one zero byte, some bytes *)
DataShapes == {"none", "empty", "zero", "bytes", "long"}      \* ("long": more bytes than any size limit a chain sets by default)
MsgKinds == {"wasm", "bank", "staking", "distribution", "stargate", "ibc", "gov", "custom"}

VARIABLES resp,     \* what the bridged handler returned
          stage,    \* "returned" | "bridged"
          result    \* [ok, r]: failure, or the response handed to the caller
bvars == <<resp, stage, result>>

HasCustom(r) == \E i \in 1..Len(r.msgs) : r.msgs[i].kind = "custom"
NoResp == [msgs |-> <<>>, attrs |-> 0, events |-> 0, data |-> "none"]
Pending == [ok |-> FALSE, r |-> NoResp]
\* identity on everything but custom messages: order, ids, payloads, gas, triggers, attributes, events, data; no partial response on failure
BridgeOf(r) == IF HasCustom(r) THEN [ok |-> FALSE, r |-> NoResp] ELSE [ok |-> TRUE, r |-> r]

DoBridge == /\ stage = "returned" /\ result' = BridgeOf(resp) /\ stage' = "bridged" /\ UNCHANGED resp

C11_FailsExactlyOnCustom == stage = "bridged" => ((~result.ok) <=> HasCustom(resp))
C11_OtherwiseIntact == (stage = "bridged" /\ ~HasCustom(resp)) => result.r = resp
C11_NoPartialResponse == (stage = "bridged" /\ ~result.ok) => result.r = NoResp
=============================================================================
