------------------------------- MODULE Chain -------------------------------
(***************************************************************************)
(* Sub-messages and replies end to end on a chain: a transaction sent to   *)
(* the caller contract (a reply program of Reply.tla with one exec         *)
(* handler, `fire`) builds a sub-message with the generated builder of a   *)
(* handler name; the chain runs the wrapped message against a target       *)
(* (another contract, an instantiation, the bank), replies to the caller   *)
(* for the outcomes the sub-message asked for, the generated dispatcher    *)
(* routes the reply, and the whole transaction commits or is rolled back.  *)
(* One action per step of that pipeline; the chain's own steps follow      *)
(* cw-multi-test (which follows wasmd).                                    *)
(*                                                                         *)
(* What the synthetic replies of ReplyRT.tla cannot show and this machine  *)
(* does: the builder's reply_on and the dispatcher's table are *consumed   *)
(* by a third party*, so a disagreement between them changes which         *)
(* transactions commit; data arrives in the envelopes the chain makes.     *)
(***************************************************************************)
EXTENDS Reply

CONSTANT Progs       \* sequence of reply programs (the compiled corpus)

VARIABLES pi,        \* program (index into Progs)
          cst,       \* "idle" | "fired" | "built" | "subdone" | "replying" | "finishing"
          tx,        \* the transaction: [h, kind, mode, reply_on]
          sres,      \* outcome of the wrapped message: [result, class]
          rout,      \* what the dispatcher did with the reply: [kind, m, extracted] (ReplyRT's vocabulary)
          store,     \* committed state: [mark (last handler that wrote), count (writes), callee (target's counter)]
          pstore,    \* state inside the running transaction
          fin        \* [res |-> "none" | "ok" | "err", data |-> who supplied the transaction's data]
cvars == <<pi, cst, tx, sres, rout, store, pstore, fin>>
Pr == Progs[pi]

NoTx == [h |-> "", kind |-> "", mode |-> "", reply_on |-> ""]
NoSres == [result |-> "none", class |-> "absent"]
NoRout == [kind |-> "", m |-> 0, extracted |-> ""]
NoFin == [res |-> "none", data |-> ""]
Store0 == [mark |-> "", count |-> 0, callee |-> 0]

(* ---- a transaction reaches the caller's `fire` handler ------------------ *)
Fire(h, kind, mode) ==
    /\ cst = "idle" /\ ~Legacy(Pr)
    /\ h \in AllHandlers(Pr) /\ kind \in ChainKinds /\ mode \in ChainModes(kind)
    /\ tx' = [h |-> h, kind |-> kind, mode |-> mode, reply_on |-> ""]
    /\ pstore' = [store EXCEPT !.mark = "fire", !.count = @ + 1]
    /\ sres' = NoSres /\ rout' = NoRout /\ fin' = NoFin
    /\ cst' = "fired"
    /\ UNCHANGED <<pi, store>>

(* ---- the generated builder of handler name h stamps id, trigger and payload *)
Build ==
    /\ cst = "fired"
    /\ tx' = [tx EXCEPT !.reply_on = ReplyOn(Pr, tx.h)]
    /\ cst' = "built"
    /\ UNCHANGED <<pi, sres, rout, store, pstore, fin>>

(* ---- the chain runs the wrapped message in a transaction of its own ------- *)
SubRun ==
    /\ cst = "built"
    /\ sres' = [result |-> ChainResult(tx.mode), class |-> ChainClass(tx.kind, tx.mode)]
    /\ pstore' = IF ChainResult(tx.mode) = "ok" /\ tx.kind = "exec" THEN [pstore EXCEPT !.callee = @ + 1] ELSE pstore
    /\ cst' = "subdone"
    /\ UNCHANGED <<pi, tx, rout, store, fin>>

(* ---- the chain decides whether the caller hears about it ------------------ *)
ChainRoute ==
    /\ cst = "subdone"
    /\ IF ChainRepliesFor(tx.reply_on, sres.result)
       THEN cst' = "replying" /\ fin' = fin
       ELSE /\ cst' = "finishing"
            /\ fin' = IF sres.result = "ok" THEN [res |-> "ok", data |-> "fire"] ELSE [res |-> "err", data |-> ""]
    /\ UNCHANGED <<pi, tx, sres, rout, store, pstore>>

(* ---- the generated dispatcher routes the reply ----------------------------- *)
RunMethod(m, x) ==
    /\ rout' = [kind |-> "method", m |-> m, extracted |-> x]
    /\ pstore' = [pstore EXCEPT !.mark = Pr.methods[m].name, !.count = @ + 1]
    /\ fin' = IF Pr.methods[m].outcome = "ok" THEN [res |-> "ok", data |-> Pr.methods[m].name] ELSE [res |-> "err", data |-> ""]
ReplyDispatchC ==
    /\ cst = "replying"
    /\ LET r == Route(Pr, tx.h, sres.result) IN
       IF r.kind = "method" /\ r.second = "data"
       THEN \E x \in Extract(DataMode(Pr, tx.h), sres.class) :
               IF HandlerRuns(x) THEN RunMethod(r.m, x)
               ELSE /\ rout' = [kind |-> "data_error", m |-> r.m, extracted |-> x]
                    /\ fin' = [res |-> "err", data |-> ""] /\ pstore' = pstore
       ELSE IF r.kind = "method" THEN RunMethod(r.m, "")
       ELSE /\ rout' = [kind |-> r.kind, m |-> 0, extracted |-> ""]          \* pass-through / forwarded error
            /\ pstore' = pstore
            /\ fin' = IF r.kind = "passthrough"
                      THEN [res |-> "ok", data |-> IF sres.class = "absent" THEN "fire" ELSE "sub"]
                      ELSE [res |-> "err", data |-> ""]
    /\ cst' = "finishing"
    /\ UNCHANGED <<pi, tx, sres, store>>

(* ---- commit or roll back ---------------------------------------------------- *)
Finish ==
    /\ cst = "finishing"
    /\ store' = IF fin.res = "ok" THEN pstore ELSE store
    /\ pstore' = store'
    /\ cst' = "idle"
    /\ UNCHANGED <<pi, tx, sres, rout, fin>>

-----------------------------------------------------------------------------
Covered == Route(Pr, tx.h, sres.result).kind = "method"

(* C08: the builder asks for a reply exactly for the outcomes that have a method, so on a chain           *)
(*      no reply is delivered in vain and no covered outcome goes unanswered                             *)
C08_ChainNoReplyInVain == cst = "replying" => Covered
C08_ChainCoveredOutcomeIsAnswered == (cst = "finishing" /\ Covered) => rout.kind \in {"method", "data_error"}
(* C07: an outcome no method covers behaves as if no reply had been requested: nothing of the caller runs, *)
(*      a success goes on with the caller's own response, a failure fails the transaction                *)
C07_ChainUncoveredActsAsNoReply ==
    (cst = "finishing" /\ ~Covered) =>
        /\ rout = NoRout /\ pstore.mark = "fire"
        /\ fin = IF sres.result = "ok" THEN [res |-> "ok", data |-> "fire"] ELSE [res |-> "err", data |-> ""]
(* C07: the transaction's outcome is the outcome of the method that ran *)
C07_ChainMethodOutcomeDecides ==
    (cst = "finishing" /\ rout.kind = "method") =>
        /\ rout.m \in MethodsFor(Pr, tx.h)
        /\ fin.res = Pr.methods[rout.m].outcome
        /\ fin.res = "ok" => fin.data = Pr.methods[rout.m].name /\ pstore.mark = Pr.methods[rout.m].name
(* C09: missing or undecodable data fails the transaction and no method has run *)
C09_ChainBadDataFailsTransaction ==
    (cst = "finishing" /\ rout.kind = "data_error") => (fin.res = "err" /\ pstore.mark = "fire")
(* the chain: a failed transaction changes nothing (action property) *)
AtomicFailure == [][(cst = "finishing" /\ fin.res = "err") => store' = store]_cvars
(* every transaction ends (checked under fairness) *)
TxEnds == (cst = "fired") ~> (cst = "idle")
=============================================================================
