---------------------------- MODULE TraceCommon ----------------------------
(* Helpers shared by the trace-validation specs.                           *)
EXTENDS TLC, Sequences, Naturals, IOUtils

(* A named check: when it fails, say which property and which clause, so   *)
(* the driver can attribute the rejection (the event index comes from the  *)
(* POSTCONDITION).  Checks of properties outside the focus are skipped so  *)
(* that one property's violation does not mask the validation of another.  *)
Focus == IF "VERIF_FOCUS" \in DOMAIN IOEnv THEN IOEnv.VERIF_FOCUS ELSE "ALL"

(* A failing clause of a *property* is reported and the trace goes on (the step  *)
(* is bound to what was observed, so later events are still judged); a failing  *)
(* BIND clause means the event cannot be interpreted at all and blocks.         *)
Chk(prop, name, pos, P) ==
    IF Focus # "ALL" /\ prop # "BIND" /\ prop # Focus THEN TRUE
    ELSE IF P THEN TRUE
    ELSE Print(<<"CHECK-FAILED", prop, name, pos>>, prop # "BIND")
=============================================================================
