---------------------------- MODULE MC_Builder ----------------------------
EXTENDS Builder
NonVacuous == TLCGet("stats").generated > 0 /\ PrintT(<<"BUILDER-RUNS", Cardinality(Runs("exec", MaxSets)) + Cardinality(Runs("inst", MaxSets))>>)
=============================================================================
