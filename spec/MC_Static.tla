----------------------------- MODULE MC_Static -----------------------------
(***************************************************************************)
(* Bounded families of source items for the shape-of-the-expansion         *)
(* properties, the (one-step) expansion machine over them, and emission of *)
(* the items for the in-process harness.                                   *)
(*   ep   C06  all override subsets x migrate x reply x replies x generic  *)
(*   pt   C13  attribute placements on item / handler / helper / params    *)
(*   fw   C17  placements of forwarded marker attributes                   *)
(*   gen  C15  assignments of type parameters to handler arguments         *)
(***************************************************************************)
EXTENDS Static, Json, IOUtils

CONSTANTS PtChoices,    \* attribute placements per site explored in family pt (1..PtChoices of the pool)
          GenParams     \* number of type parameters in family gen

Ctx(k) == CASE k = "exec" -> "ExecCtx" [] k = "query" -> "QueryCtx" [] k = "sudo" -> "SudoCtx"
            [] k = "instantiate" -> "InstantiateCtx" [] k = "migrate" -> "MigrateCtx" [] OTHER -> "ReplyCtx"
Ret(k) == IF k = "query" THEN "StdResult<QResp>" ELSE "StdResult<Response>"

P(n, ty) == [n |-> n, ty |-> ty, attrs |-> <<>>, mentions |-> <<>>]
H(name, k, params) ==
    [name |-> name, vis |-> "", attrs |-> <<A("sv::msg", k)>>, kind |-> k, ctx |-> Ctx(k),
     params |-> params, ret |-> Ret(k), body |-> "todo!()", retm |-> <<>>, ctxattr |-> ""]
New == [name |-> "new", vis |-> "pub const", attrs |-> <<>>, kind |-> "", ctx |-> "",
        params |-> <<>>, ret |-> "Self", body |-> "Ctr", retm |-> <<>>, ctxattr |-> ""]
BaseItem(id, fam, mac) ==
    [id |-> id, family |-> fam, macro |-> mac, mattr |-> "", attrs |-> <<>>, generics |-> <<>>, wheres |-> <<>>,
     assoc |-> <<>>, self_ty |-> "Ctr", members |-> <<>>, twin |-> "", overrides |-> <<>>, forwards |-> <<>>,
     noerror |-> FALSE, expect |-> "clean", rule |-> "",
     late |-> 0]       \* interface: number of methods written before the associated types (0: the types open the trait body)

(* ------------------------------------------------------------------ ep *)
KindSeq == <<"instantiate", "exec", "query", "sudo", "migrate", "reply">>
OvAttr(k) == A("sv::override_entry_point", k \o " = crate::ov::" \o k \o "(OvMsg)")
B2S(b) == IF b THEN "1" ELSE "0"
EpItem(ov, mig, rep, feat, gen, rev) ==
    LET ovs0 == SelectSeq(KindSeq, LAMBDA k : k \in ov)
        ovs == IF rev THEN Reverse(ovs0) ELSE ovs0
        replyH == IF feat
                  THEN [H("on_done", "reply", <<P("payload", "Binary")>>) EXCEPT
                          !.attrs = <<A("sv::msg", "reply, reply_on = always")>>,
                          !.params = <<P("result", "SubMsgResult"), [P("payload", "Binary") EXCEPT !.attrs = <<A("sv::payload", "raw")>>]>>]
                  ELSE H("on_done", "reply", <<P("reply", "Reply")>>)
    IN [BaseItem("E" \o B2S(mig) \o B2S(rep) \o B2S(feat) \o B2S(gen) \o "_"
                     \o FoldLeft(LAMBDA acc, k : acc \o (IF k \in ov THEN "1" ELSE "0"), "", KindSeq) \o (IF rev THEN "r" ELSE ""),
                 "ep", "entry_points") EXCEPT
          !.mattr = IF gen THEN "generics<Empty>" ELSE "",
          !.attrs = [i \in 1..Len(ovs) |-> OvAttr(ovs[i])] \o (IF feat THEN <<A("sv::features", "replies")>> ELSE <<>>),
          !.generics = IF gen THEN <<"T">> ELSE <<>>,
          !.self_ty = IF gen THEN "Ctr<T>" ELSE "Ctr",
          !.overrides = ovs,
          !.twin = B2S(mig) \o B2S(rep) \o B2S(feat) \o B2S(gen),
          !.members = <<New, H("instantiate", "instantiate", IF gen THEN <<[P("x", "T") EXCEPT !.mentions = <<"T">>]>> ELSE <<P("x", "u32")>>)>>
                      \o <<H("do_it", "exec", <<>>)>>
                      \o (IF mig THEN <<H("migrate", "migrate", <<>>)>> ELSE <<>>)
                      \o (IF rep THEN <<replyH>> ELSE <<>>)]
(* several kinds overridden with one and the same function (legal whenever the kinds share a signature) *)
SharedFn(it) == [it EXCEPT !.id = @ \o "s",
                           !.attrs = [i \in 1..Len(@) |-> IF @[i].p = "sv::override_entry_point"
                                                          THEN A("sv::override_entry_point", it.overrides[i] \o " = crate::ov::shared(OvMsg)") ELSE @[i]]]
MembersReversed(it) ==      \* `new` stays first; the handlers follow in the opposite order
    [it EXCEPT !.id = @ \o "m", !.members = <<@[1]>> \o Reverse(Tail(@))]
EpFamily == {EpItem(ov, mig, rep, feat, gen, FALSE) :
                ov \in SUBSET AllKinds, mig \in BOOLEAN, rep \in BOOLEAN, feat \in BOOLEAN, gen \in BOOLEAN}
       \cup {EpItem(ov, mig, rep, FALSE, FALSE, TRUE) :       \* the same overrides declared in the opposite order (C14)
                ov \in {o \in SUBSET AllKinds : Cardinality(o) >= 2}, mig \in BOOLEAN, rep \in BOOLEAN}
       \cup {SharedFn(EpItem(ov, mig, rep, FALSE, FALSE, FALSE)) :
                ov \in {{"sudo", "migrate"}, {"instantiate", "exec"}, {"sudo", "migrate", "reply"}, {"exec", "sudo", "query"}}, mig \in BOOLEAN, rep \in BOOLEAN}
       \cup {MembersReversed(EpItem(ov, mig, rep, feat, FALSE, FALSE)) :      \* the same handlers declared in the opposite order (C14)
                ov \in {{}, {"exec"}, {"migrate"}, {"reply"}}, mig \in BOOLEAN, rep \in BOOLEAN, feat \in BOOLEAN}

(* ------------------------------------------------------------------ pt *)
(* attribute pools per site; choice 0 = nothing *)
ItemPool == << <<A("sv::error", "ContractError")>>,
               <<A("allow", "dead_code"), A("sv::messages", "i1 as Iface1")>>,
               <<A("cfg", "not(feature = \"zz\")"), A("sv::msg_attr", "exec, derive(PartialOrd)"), A("doc", "= \" item doc\"")>> >>
HandlerPool == << <<A("inline", "")>>,
                  <<A("doc", "= \" handler doc\""), A("sv::attr", "serde(rename = \"zz\")")>>,
                  <<A("allow", "unused_variables"), A("must_use", "")>> >>
HelperPool == << <<A("inline", "always")>>,
                 <<A("doc", "= \" helper doc\""), A("cfg", "test")>>,
                 <<A("allow", "clippy::all")>> >>
HParamPool == << <<A("serde", "default")>>,
                 <<A("cfg", "all()")>>,
                 <<A("allow", "unused_variables"), A("serde", "rename = \"q\"")>> >>
LParamPool == << <<A("cfg", "any()")>>,
                 <<A("allow", "unused_variables")>>,
                 <<A("cfg", "all()"), A("allow", "unused")>> >>
Pick(pool, c) == IF c = 0 THEN <<>> ELSE pool[c]
PtItem(mac, c) ==      \* c: choice per site <<item, handler, helper, handler param, helper param>>
    LET nested == "fn inner(#[cfg(all())] w: u8, #[allow(unused_variables)] v: u8) -> u8 { w } struct In; impl In { fn m(&self, #[cfg(all())] q: u8) {} } todo!()"
        handler == [H("foo", "exec", <<[P("x", "u32") EXCEPT !.attrs = Pick(HParamPool, c[4])], P("y", "String")>>) EXCEPT
                       !.attrs = Pick(HandlerPool, c[2]) \o <<A("sv::msg", "exec")>>, !.vis = "pub", !.body = nested]
        helper == [name |-> "helper", vis |-> "pub(crate)", attrs |-> Pick(HelperPool, c[3]), kind |-> "", ctx |-> "",
                   params |-> <<[P("z", "u32") EXCEPT !.attrs = Pick(LParamPool, c[5])]>>, ret |-> "u32",
                   body |-> "fn inner2(#[cfg(all())] w: u32) -> u32 { w } inner2(7)", retm |-> <<>>, ctxattr |-> ""]
        id == "P" \o (IF mac = "contract" THEN "c" ELSE IF mac = "interface" THEN "i" ELSE "e")
                  \o ToString(c[1]) \o ToString(c[2]) \o ToString(c[3]) \o ToString(c[4]) \o ToString(c[5])
    IN IF mac = "interface"
       THEN [BaseItem(id, "pt", mac) EXCEPT
               !.attrs = SelectSeq(Pick(ItemPool, c[1]), LAMBDA a : a.p \notin {"sv::error", "sv::messages"})
                         \o <<A("sv::custom", "msg = Empty, query = Empty")>>,
               !.self_ty = "Iface",
               !.members = << [handler EXCEPT !.vis = "", !.body = IF c[2] = 1 THEN nested ELSE ""],
                              [helper EXCEPT !.vis = "", !.body = IF c[3] = 1 THEN "7" ELSE ""] >>]
       ELSE [BaseItem(id, "pt", mac) EXCEPT
               !.attrs = Pick(ItemPool, c[1]),
               !.members = <<New, H("instantiate", "instantiate", <<>>), handler, helper>>]
(* attributes on the item that mention the lint the contract macro itself allows *)
PtLintItem(i) ==
    LET base == PtItem("contract", [x \in 1..5 |-> 0]) IN
    [base EXCEPT !.id = "PL" \o ToString(i),
                 !.attrs = CASE i = 1 -> <<A("allow", "clippy::new_without_default")>>
                             [] i = 2 -> <<A("allow", "clippy::new_without_default, non_snake_case, unused_variables")>>
                             [] i = 3 -> <<A("allow", "dead_code"), A("allow", "non_snake_case, clippy::new_without_default")>>
                             [] OTHER -> <<A("deny", "clippy::new_without_default"), A("sv::error", "ContractError")>>]
(* contracts listing several interfaces: the expansion (wrapper variants, dispatch arms, schema parts) must come out the same every time *)
PtIfacesItem(n) ==
    LET base == PtItem("contract", [x \in 1..5 |-> 0]) IN
    [base EXCEPT !.id = "PI" \o ToString(n),
                 !.attrs = <<A("sv::error", "ContractError")>>
                           \o [i \in 1..n |-> A("sv::messages", "crate::ifaces::m" \o ToString(i) \o " as Iface" \o ToString(i))]]
(* a handler with another framework attribute written above its sv::msg, and attributes on its parameters *)
PtAttrFirstItem(mac) ==
    LET base == PtItem(mac, [x \in 1..5 |-> 0])
        ix == IF mac = "interface" THEN 1 ELSE 3 IN
    [base EXCEPT !.id = "PA" \o (IF mac = "interface" THEN "i" ELSE "c"),
                 !.members[ix] = [@ EXCEPT !.attrs = <<A("sv::attr", "serde(rename = \"zz\")"), A("sv::msg", "exec")>>,
                                           !.params = <<[P("x", "u32") EXCEPT !.attrs = <<A("serde", "default")>>],
                                                        [P("y", "String") EXCEPT !.attrs = <<A("cfg", "all()"), A("allow", "unused")>>]>>]]
(* the contract macro invoked with an argument (the pre-1.0 `module = ..` marker on interface implementations): nothing is generated, *)
(* the block is re-emitted like any other -- framework attributes and handler-parameter attributes removed                          *)
PtModuleItem ==
    LET base == PtItem("contract", <<1, 2, 1, 1, 1>>) IN
    [base EXCEPT !.id = "PM1", !.mattr = "module = crate::counter"]
(* conditional compilation written inside the macro input: on the item, on a handler, on a helper (kept wherever it is written) *)
PtCfgItem(mac, site) ==
    LET base == PtItem(mac, [x \in 1..5 |-> 0])
        hix == IF mac = "interface" THEN 1 ELSE 3
        tag == [base EXCEPT !.id = "PC" \o (IF mac = "interface" THEN "i" ELSE "c") \o ToString(site)] IN
    CASE site = 1 -> [tag EXCEPT !.attrs = <<A("cfg", "not(feature = \"zz\")")>> \o @]
      [] site = 2 -> [tag EXCEPT !.members[hix] = [@ EXCEPT !.attrs = <<A("cfg", "all()")>> \o @]]
      [] OTHER    -> [tag EXCEPT !.members[hix + 1] = [@ EXCEPT !.attrs = <<A("cfg", "not(test)"), A("inline", "")>>]]
(* an interface with supertraits, a contract impl block with a where clause on `Self`: the header is re-emitted as written *)
PtHeaderItem(i) ==
    LET base == PtItem(IF i = 1 THEN "interface" ELSE "contract", [x \in 1..5 |-> 0]) IN
    IF i = 1 THEN [base EXCEPT !.id = "PH1", !.self_ty = "Iface: Send + Sync"]
    ELSE [base EXCEPT !.id = "PH2", !.wheres = <<[text |-> "u32: Copy", mentions |-> <<>>]>>]
(* handlers with parameters declared `mut` that their bodies assign to: an interface handler with a default body, a contract handler *)
PtMutItem(mac) ==
    LET base == PtItem(mac, [x \in 1..5 |-> 0])
        hix == IF mac = "interface" THEN 1 ELSE 3 IN
    [base EXCEPT !.id = "PU" \o (IF mac = "interface" THEN "i" ELSE "c"),
                 !.members[hix] = [@ EXCEPT !.params = <<P("mut x", "u32"), P("mut y", "String")>>, !.body = "x += 1; y.push('z'); todo!()"]]
PtFamily == {PtMutItem(mac) : mac \in {"contract", "interface"}} \cup {PtHeaderItem(i) : i \in 1..2} \cup {PtCfgItem(mac, site) : mac \in {"contract", "interface"}, site \in 1..3} \cup {PtModuleItem} \cup {PtAttrFirstItem(mac) : mac \in {"contract", "interface"}} \cup {PtLintItem(i) : i \in 1..4} \cup {PtIfacesItem(n) : n \in {2, 3, 5}} \cup {PtItem(mac, c) : mac \in {"contract", "interface", "entry_points"}, c \in [1..5 -> 0..PtChoices]}

(* ------------------------------------------------------------------ fw *)
Marker(i) == A("doc", "= \"m" \o ToString(i) \o "\"")
FwMethods == << H("instantiate", "instantiate", <<P("a", "u32")>>), H("foo", "exec", <<P("x", "u32"), P("y", "u32")>>),
                H("bar", "exec", <<P("x", "u32")>>), H("ask", "query", <<P("q", "u32")>>), H("poke", "sudo", <<P("s", "u32")>>),
                H("migrate", "migrate", <<P("v", "u32")>>) >>
FwSites ==      \* every site a marker can be forwarded to
       {[site |-> "type", kind |-> k, method |-> "", param |-> "", m |-> A("", "")] : k \in AllKinds}
  \cup {[site |-> "variant", kind |-> FwMethods[i].kind, method |-> FwMethods[i].name, param |-> "", m |-> A("", "")] :
           i \in {j \in 1..Len(FwMethods) : FwMethods[j].kind \in {"exec", "query", "sudo"}}}
  \cup UNION {{[site |-> "field", kind |-> FwMethods[i].kind, method |-> FwMethods[i].name, param |-> FwMethods[i].params[x].n, m |-> A("", "")] :
                  x \in 1..Len(FwMethods[i].params)} : i \in 1..Len(FwMethods)}
WithForward(members, f, mk) ==
    [i \in 1..Len(members) |->
        IF f.site = "variant" /\ members[i].name = f.method
        THEN \* the first marker's sv::attr is written above the handler's sv::msg, the second one below it
             [members[i] EXCEPT !.attrs = IF mk = Marker(1) THEN <<A("sv::attr", mk.p \o " " \o mk.t)>> \o @
                                          ELSE @ \o <<A("sv::attr", mk.p \o " " \o mk.t)>>]
        ELSE IF f.site = "field" /\ members[i].name = f.method
        THEN [members[i] EXCEPT !.params = [x \in 1..Len(@) |-> IF @[x].n = f.param THEN [@[x] EXCEPT !.attrs = @ \o <<mk>>] ELSE @[x]]]
        ELSE members[i]]
(* on a handler argument the marker may be wrapped in a conditional attribute with a true predicate: it is *)
(* forwarded as written and still takes effect on the field                                                  *)
Wrapped(mk) == A("cfg_attr", "all(), " \o mk.p \o " " \o mk.t)
FwItem(mac, s1, s2, wrap) ==      \* two markers at two (possibly equal-kind) sites
    LET m1 == IF wrap /\ s1.site = "field" THEN Wrapped(Marker(1)) ELSE Marker(1)
        m2 == IF wrap /\ s2.site = "field" THEN Wrapped(Marker(2)) ELSE Marker(2)
        ms0 == IF mac = "interface"
               THEN SelectSeq(FwMethods, LAMBDA m : m.kind \in {"exec", "query", "sudo"})
               ELSE <<New>> \o FwMethods
        ms1 == WithForward(ms0, s1, m1)
        ms2 == WithForward(ms1, s2, m2)
        typeAttrs == (IF s1.site = "type" THEN <<A("sv::msg_attr", s1.kind \o ", " \o Marker(1).p \o " " \o Marker(1).t)>> ELSE <<>>)
                  \o (IF s2.site = "type" THEN <<A("sv::msg_attr", s2.kind \o ", " \o Marker(2).p \o " " \o Marker(2).t)>> ELSE <<>>)
    IN [BaseItem("F", "fw", mac) EXCEPT
          !.attrs = typeAttrs \o (IF mac = "interface" THEN <<A("sv::custom", "msg = Empty, query = Empty")>> ELSE <<>>),
          !.self_ty = IF mac = "interface" THEN "Iface" ELSE "Ctr",
          !.members = [i \in 1..Len(ms2) |-> IF mac = "interface" THEN [ms2[i] EXCEPT !.body = ""] ELSE ms2[i]],
          !.forwards = <<[s1 EXCEPT !.m = m1] , [s2 EXCEPT !.m = m2]>>]
(* several attributes forwarded to the type of one kind, with an attribute for another kind written between them *)
FwTripleItem(mac, k1, k2, id) ==
    LET ms == IF mac = "interface" THEN SelectSeq(FwMethods, LAMBDA m : m.kind \in {"exec", "query", "sudo"}) ELSE <<New>> \o FwMethods
        ty(k, i) == A("sv::msg_attr", k \o ", " \o Marker(i).p \o " " \o Marker(i).t)
        fw(k, i) == [site |-> "type", kind |-> k, method |-> "", param |-> "", m |-> Marker(i)]
    IN [BaseItem(id, "fw", mac) EXCEPT
          !.attrs = <<ty(k1, 1), ty(k2, 3), ty(k1, 2)>> \o (IF mac = "interface" THEN <<A("sv::custom", "msg = Empty, query = Empty")>> ELSE <<>>),
          !.self_ty = IF mac = "interface" THEN "Iface" ELSE "Ctr",
          !.members = [i \in 1..Len(ms) |-> IF mac = "interface" THEN [ms[i] EXCEPT !.body = ""] ELSE ms[i]],
          !.forwards = <<fw(k1, 1), fw(k2, 3), fw(k1, 2)>>]
(* attributes forwarded to the types of kinds the item has no handler of (the types exist all the same, without variants) *)
FwNoHandlerItem(mac, id) ==
    LET ms == IF mac = "interface" THEN << [H("foo", "exec", <<P("x", "u32")>>) EXCEPT !.body = ""] >>
              ELSE <<New, H("instantiate", "instantiate", <<P("a", "u32")>>), H("foo", "exec", <<P("x", "u32")>>)>>
        ty(k, i) == A("sv::msg_attr", k \o ", " \o Marker(i).p \o " " \o Marker(i).t)
        fw(k, i) == [site |-> "type", kind |-> k, method |-> "", param |-> "", m |-> Marker(i)]
    IN [BaseItem(id, "fw", mac) EXCEPT
          !.attrs = <<ty("sudo", 1), ty("query", 2)>> \o (IF mac = "interface" THEN <<A("sv::custom", "msg = Empty, query = Empty")>> ELSE <<>>),
          !.self_ty = IF mac = "interface" THEN "Iface" ELSE "Ctr",
          !.members = ms,
          !.forwards = <<fw("sudo", 1), fw("query", 2)>>]
(* forwarded *derive* attributes whose trait names are contained in names of traits the framework derives itself (Eq in PartialEq) *)
FwDeriveItem(mac, k, id) ==
    LET ms == IF mac = "interface" THEN SelectSeq(FwMethods, LAMBDA m : m.kind \in {"exec", "query", "sudo"}) ELSE <<New>> \o FwMethods
        d1 == A("derive", "Eq")
        d2 == A("derive", "Eq, PartialOrd")
        k2 == IF k = "exec" THEN "query" ELSE "exec"
        ty(kk, d) == A("sv::msg_attr", kk \o ", " \o d.p \o "(" \o d.t \o ")")
        fw(kk, d) == [site |-> "type", kind |-> kk, method |-> "", param |-> "", m |-> d]
    IN [BaseItem(id, "fw", mac) EXCEPT
          !.attrs = <<ty(k, d1), ty(k2, d2)>> \o (IF mac = "interface" THEN <<A("sv::custom", "msg = Empty, query = Empty")>> ELSE <<>>),
          !.self_ty = IF mac = "interface" THEN "Iface" ELSE "Ctr",
          !.members = [i \in 1..Len(ms) |-> IF mac = "interface" THEN [ms[i] EXCEPT !.body = ""] ELSE ms[i]],
          !.forwards = <<fw(k, d1), fw(k2, d2)>>]
FwDerives == {FwDeriveItem("contract", "exec", "FDc1"), FwDeriveItem("contract", "sudo", "FDc2"), FwDeriveItem("contract", "instantiate", "FDc3"),
              FwDeriveItem("interface", "exec", "FDi1"), FwDeriveItem("interface", "query", "FDi2")}
FwTripleKinds(mac) == IF mac = "interface" THEN {"exec", "query", "sudo"} ELSE {"instantiate", "exec", "query", "sudo", "migrate"}
FwTripleSeq(mac) == SetToSeq({<<a, b>> \in FwTripleKinds(mac) \X FwTripleKinds(mac) : a # b})
FwTriples == UNION {{FwTripleItem(mac, FwTripleSeq(mac)[i][1], FwTripleSeq(mac)[i][2], "FT" \o (IF mac = "contract" THEN "c" ELSE "i") \o ToString(i)) :
                        i \in 1..Len(FwTripleSeq(mac))} : mac \in {"contract", "interface"}}
FwSitesFor(mac) == IF mac = "interface"
                   THEN {s \in FwSites : s.kind \in {"exec", "query", "sudo", "reply"} \/ s.site = "type"}
                   ELSE FwSites
FwSeq(mac) == SetToSeq({<<s1, s2>> \in FwSitesFor(mac) \X FwSitesFor(mac) : s1 # s2})
FwFamily == UNION {{[FwItem(mac, [FwSeq(mac)[i][1] EXCEPT !.m = Marker(1)], [FwSeq(mac)[i][2] EXCEPT !.m = Marker(2)], i % 2 = 1)
                        EXCEPT !.id = "F" \o (IF mac = "contract" THEN "c" ELSE "i") \o ToString(i)] :
                      i \in 1..Len(FwSeq(mac))} : mac \in {"contract", "interface"}}

(* two markers forwarded to one and the same variant / field: attributes with the same path (`doc`) and different arguments *)
FwSameSites(mac) == {s \in FwSitesFor(mac) : s.site \in {"variant", "field"}}
FwSameSeq(mac) == SetToSeq(FwSameSites(mac))
FwSame == UNION {{[FwItem(mac, [FwSameSeq(mac)[i] EXCEPT !.m = Marker(1)], [FwSameSeq(mac)[i] EXCEPT !.m = Marker(2)], FALSE)
                      EXCEPT !.id = "FS" \o (IF mac = "contract" THEN "c" ELSE "i") \o ToString(i)] :
                    i \in 1..Len(FwSameSeq(mac))} : mac \in {"contract", "interface"}}

(* ----------------------------------------------------------------- gen *)
TP(i) == "T" \o ToString(i)
Params == [i \in 1..GenParams |-> TP(i)]
(* occurrence shapes of one parameter set inside an argument type *)
TyDirect(t) == [ty |-> t, mentions |-> <<t>>]
TyOpt(t) == [ty |-> "Option<" \o t \o ">", mentions |-> <<t>>]
TyVecPair(t, u) == [ty |-> "Vec<(" \o t \o ", " \o u \o ")>", mentions |-> IF t = u THEN <<t>> ELSE <<t, u>>]
TyNone == [ty |-> "u32", mentions |-> <<>>]
ArgTypes == {TyNone} \cup {TyDirect(TP(i)) : i \in 1..GenParams} \cup {TyOpt(TP(i)) : i \in 1..GenParams}
            \cup {TyVecPair(TP(i), TP(j)) : i, j \in 1..GenParams}
GP(n, t) == [n |-> n, ty |-> t.ty, attrs |-> <<>>, mentions |-> t.mentions]
WherePool == [i \in 1..GenParams |-> [text |-> TP(i) \o ": Clone", mentions |-> <<TP(i)>>]]
             \o (IF GenParams >= 2 THEN <<[text |-> "T1: PartialEq<T2>", mentions |-> <<"T1", "T2">>],
                                           \* another parameter mentioned only inside an associated-type binding of the bound
                                           [text |-> "T2: IntoIterator<Item = T1>", mentions |-> <<"T1", "T2">>]>> ELSE <<>>)
GenItem(ti, te, tq, tr, id) ==      \* types of: instantiate arg, exec arg, query arg, query response
    [BaseItem(id, "gen", "contract") EXCEPT
       !.generics = Params, !.wheres = WherePool,
       !.self_ty = "Ctr<" \o FoldLeft(LAMBDA acc, p : IF acc = "" THEN p ELSE acc \o ", " \o p, "", Params) \o ">",
       !.members = <<New, H("instantiate", "instantiate", <<GP("a", ti)>>),
                     H("foo", "exec", <<GP("x", te), P("n", "u32")>>),
                     [H("ask", "query", <<GP("q", tq)>>) EXCEPT
                        !.ret = "StdResult<" \o tr.ty \o ">", !.retm = tr.mentions],
                     H("poke", "sudo", <<>>)>>]
(* a query that names its response type with `resp=`: the (aliased) return type of the signature does not count *)
GenRespItem(tq, tr, id) ==
    LET base == GenItem(TyDirect(TP(GenParams)), TyNone, tq, tr, id) IN
    [base EXCEPT !.members[4] = [@ EXCEPT !.attrs = <<A("sv::msg", "query, resp = " \o tr.ty)>>,
                                         !.ret = "Audited<" \o TP(GenParams) \o ">"]]
RespTypes == {TyNone} \cup {TyDirect(TP(i)) : i \in 1..GenParams}
GenSeq == SetToSeq(ArgTypes \X ArgTypes \X ArgTypes \X RespTypes)
(* a parameter that occurs only inside an argument whose type is not a path at the top level: a tuple, an array, a parenthesised type *)
TyTuple(t) == [ty |-> "(" \o t \o ", u64)", mentions |-> <<t>>]
TyArr(t) == [ty |-> "[" \o t \o "; 2]", mentions |-> <<t>>]
TyParen(t) == [ty |-> "(" \o t \o ")", mentions |-> <<t>>]
(* a concrete type reached through a module path whose last segment is spelled like a parameter: no use of the parameter *)
TyQualified(t) == [ty |-> "crate::legacy::" \o t, mentions |-> <<>>]
(* a parameter nested in a non-path type *inside* a path type *)
TyVecTuple(t) == [ty |-> "Vec<(u64, " \o t \o ")>", mentions |-> <<t>>]
TyOptArr(t) == [ty |-> "Option<[" \o t \o "; 2]>", mentions |-> <<t>>]
NonPathTypes == UNION {{TyTuple(TP(i)), TyArr(TP(i)), TyParen(TP(i)), TyQualified(TP(i)), TyVecTuple(TP(i)), TyOptArr(TP(i))} : i \in 1..GenParams}
GenNonPathSeq == SetToSeq(NonPathTypes \X {1, 2, 3, 4})      \* position 4: the query's response type
GenNonPathItem(t, pos, id) == GenItem(IF pos = 1 THEN t ELSE TyNone, IF pos = 2 THEN t ELSE TyNone, IF pos = 3 THEN t ELSE TyNone,
                                      IF pos = 4 THEN t ELSE TyNone, id)
(* an interface with associated types: the message types are parameterised by the associated types their handlers use. *)
(* The associated types are written at the top of the trait, or after the first / second method.                     *)
SelfTy(t) == [ty |-> "Self::" \o t, mentions |-> <<t>>]
SelfOpt(t) == [ty |-> "Option<Self::" \o t \o ">", mentions |-> <<t>>]
SelfVecPair(t, u) == [ty |-> "Vec<(Self::" \o t \o ", Self::" \o u \o ")>", mentions |-> IF t = u THEN <<t>> ELSE <<t, u>>]
SelfAbsVec(t) == [ty |-> "::std::vec::Vec<Self::" \o t \o ">", mentions |-> <<t>>]      \* the wrapper spelled as an absolute path
IfaceArgTypes == {TyNone} \cup {SelfTy(TP(i)) : i \in 1..GenParams} \cup {SelfOpt(TP(GenParams))} \cup {SelfVecPair(TP(1), TP(GenParams))}
                 \cup {SelfAbsVec(TP(1))}
GenIfaceItem(te, tq, ts, tr, late, id) ==
    [BaseItem(id, "gen", "interface") EXCEPT
       !.attrs = <<A("sv::custom", "msg = Empty, query = Empty")>>,
       \* (the associated types handlers use are bounded as messages must be; `Aux` is unbounded and no handler uses it)
       !.generics = Params, !.assoc = [i \in 1..GenParams |-> TP(i) \o ": CustomMsg"] \o <<"Aux">>, !.self_ty = "Iface", !.late = late,
       \* the user's bounds are the bounds of the associated types (spelled as the token stream prints them)
       !.wheres = [i \in 1..GenParams |-> [text |-> TP(i) \o " : CustomMsg", mentions |-> <<TP(i)>>]],
       !.members = << [H("foo", "exec", <<GP("x", te), P("n", "u32")>>) EXCEPT !.body = ""],
                      [H("ask", "query", <<GP("q", tq)>>) EXCEPT !.ret = "StdResult<" \o tr.ty \o ">", !.retm = tr.mentions, !.body = ""],
                      [H("poke", "sudo", <<GP("s", ts)>>) EXCEPT !.body = ""] >>]
GenIfaceSeq == SetToSeq(IfaceArgTypes \X IfaceArgTypes \X {TyNone, SelfTy(TP(1))} \X {TyNone, SelfTy(TP(GenParams))} \X {0, 1, 2})
GenIfaceFamily == {GenIfaceItem(GenIfaceSeq[i][1], GenIfaceSeq[i][2], GenIfaceSeq[i][3], GenIfaceSeq[i][4], GenIfaceSeq[i][5], "GI" \o ToString(i)) :
                      i \in 1..Len(GenIfaceSeq)}
(* a parameter that occurs again after another one, within one kind: it is still carried once *)
GenRepeatItem(id, two) ==
    LET base == GenItem(TyDirect(TP(1)), TyDirect(TP(1)), TyDirect(TP(1)), TyDirect(TP(1)), id)
        t1 == TyDirect(TP(1))
        t2 == TyDirect(TP(GenParams))
    IN [base EXCEPT
          !.members[2] = [@ EXCEPT !.params = <<GP("a", t1), GP("b", t2), GP("c", t1)>>],
          !.members[3] = [@ EXCEPT !.params = IF two THEN <<GP("x", t1), GP("y", t2)>> ELSE <<GP("x", t1), GP("y", t2), GP("z", t1)>>],
          !.members[4] = [@ EXCEPT !.params = <<GP("q", t1), GP("r", t2)>>],
          !.members = IF two THEN @ \o <<H("bar", "exec", <<GP("k", t1)>>)>> ELSE @]
GenRepeats == {GenRepeatItem("GX1", FALSE), GenRepeatItem("GX2", TRUE)}
GenRespSeq == SetToSeq({TyNone, TyDirect(TP(1))} \X {TyNone, TyDirect(TP(1))})
GenFamily == {GenItem(GenSeq[i][1], GenSeq[i][2], GenSeq[i][3], GenSeq[i][4], "G" \o ToString(i)) : i \in 1..Len(GenSeq)}
        \cup {GenRespItem(GenRespSeq[i][1], GenRespSeq[i][2], "GR" \o ToString(i)) : i \in 1..Len(GenRespSeq)}
        \cup {GenNonPathItem(GenNonPathSeq[i][1], GenNonPathSeq[i][2], "GN" \o ToString(i)) : i \in 1..Len(GenNonPathSeq)}
        \cup GenIfaceFamily \cup GenRepeats


(* markers forwarded from the handlers of *generic* messages (an interface whose associated type the handlers use, a generic contract): *)
(* such message types carry a hidden variant for their parameters, which no handler designates                                       *)
FwGenSite(k, name) == [site |-> "variant", kind |-> k, method |-> name, param |-> "", m |-> A("", "")]
FwGenItem(mac, id) ==
    LET base == IF mac = "interface" THEN GenIfaceItem(SelfTy(TP(1)), SelfTy(TP(1)), SelfTy(TP(1)), TyNone, 0, id)
                ELSE GenItem(TyDirect(TP(1)), TyDirect(TP(1)), TyDirect(TP(1)), TyNone, id)
        s1 == FwGenSite("exec", "foo")
        s2 == FwGenSite("query", "ask")
    IN [base EXCEPT !.family = "fw",
                    !.members = WithForward(WithForward(@, s1, Marker(1)), s2, Marker(2)),
                    !.forwards = <<[s1 EXCEPT !.m = Marker(1)], [s2 EXCEPT !.m = Marker(2)]>>]
FwGen == {FwGenItem("interface", "FGi"), FwGenItem("contract", "FGc")}

(* ---------------------------------------------------------------- rule *)
(* one rule-breaking edit per documented rule (C18), each on a valid host *)
RuleHost == [BaseItem("host", "rule", "contract") EXCEPT
               !.attrs = <<A("sv::error", "ContractError")>>,
               !.members = <<New, H("instantiate", "instantiate", <<P("a", "u32")>>), H("foo", "exec", <<P("x", "u32")>>),
                             H("ask", "query", <<P("q", "u32")>>)>>]
ReplyHost == [RuleHost EXCEPT !.attrs = <<A("sv::error", "ContractError"), A("sv::features", "replies")>>]
IfaceHost == [BaseItem("ihost", "rule", "interface") EXCEPT
               !.attrs = <<A("sv::custom", "msg = Empty, query = Empty")>>, !.self_ty = "Iface",
               !.members = <<[H("foo", "exec", <<P("x", "u32")>>) EXCEPT !.body = ""], [H("ask", "query", <<P("q", "u32")>>) EXCEPT !.body = ""]>>]
RH(name, on, params) == [H(name, "reply", params) EXCEPT !.attrs = <<A("sv::msg", "reply, reply_on = " \o on)>>, !.ret = "Result<Response, ContractError>"]
RH2(name, on, params) == [RH(name, on, params) EXCEPT !.attrs = <<A("sv::msg", "reply, handlers = [shared], reply_on = " \o on)>>]
RawPn(n) == [P(n, "Binary") EXCEPT !.attrs = <<A("sv::payload", "raw")>>]
DataP(attr) == [P("data", "Binary") EXCEPT !.attrs = <<attr>>]
RawP == [P("payload", "Binary") EXCEPT !.attrs = <<A("sv::payload", "raw")>>]
Bad(host, id, rule, f) == [f EXCEPT !.id = id, !.rule = rule, !.expect = "dirty"]
Ok(host, id) == [host EXCEPT !.id = id]
WithMembers(host, ms) == [host EXCEPT !.members = ms]
AddMember(host, m) == [host EXCEPT !.members = @ \o <<m>>]
SetMember(host, i, m) == [host EXCEPT !.members[i] = m]
RuleFamily == {
    Ok(RuleHost, "K_host"), Ok(ReplyHost, "K_rhost"), Ok(IfaceHost, "K_ihost"),
    Ok(AddMember(ReplyHost, RH("on_done", "success", <<DataP(A("sv::data", "raw")), RawP>>)), "K_reply_ok"),
    Bad(RuleHost, "X_no_new", "missing_new", WithMembers(RuleHost, Tail(RuleHost.members))),
    Bad(RuleHost, "X_new_param", "new_with_parameter", SetMember(RuleHost, 1, [New EXCEPT !.params = <<P("p", "u32")>>, !.ctx = ""])),
    Bad(RuleHost, "X_no_inst", "missing_instantiate", WithMembers(RuleHost, <<New, RuleHost.members[3], RuleHost.members[4]>>)),
    Bad(RuleHost, "X_two_inst", "two_instantiate", AddMember(RuleHost, H("instantiate2", "instantiate", <<>>))),
    Bad(RuleHost, "X_two_mig", "two_migrate", AddMember(AddMember(RuleHost, H("migrate", "migrate", <<>>)), H("migrate2", "migrate", <<>>))),
    \* ... whatever the handlers are called: names that differ only in what case conversion drops (the message variant of
    \* both would be `Instantiate`), a third handler, the extra handler declared first
    Bad(RuleHost, "X_two_inst_u", "two_instantiate", AddMember(RuleHost, H("instantiate_", "instantiate", <<>>))),
    Bad(RuleHost, "X_two_inst_l", "two_instantiate", AddMember(RuleHost, H("_instantiate", "instantiate", <<P("b", "u32")>>))),
    Bad(RuleHost, "X_two_inst_d", "two_instantiate",
        AddMember(SetMember(RuleHost, 2, H("init_contract", "instantiate", <<P("a", "u32")>>)), H("init__contract", "instantiate", <<P("a", "u32")>>))),
    Bad(RuleHost, "X_two_inst_f", "two_instantiate",
        WithMembers(RuleHost, <<New, H("instantiate2", "instantiate", <<>>)>> \o Tail(RuleHost.members))),
    Bad(RuleHost, "X_three_inst", "two_instantiate",
        AddMember(AddMember(RuleHost, H("instantiate2", "instantiate", <<>>)), H("instantiate_", "instantiate", <<>>))),
    Bad(RuleHost, "X_two_mig_u", "two_migrate", AddMember(AddMember(RuleHost, H("migrate", "migrate", <<>>)), H("migrate_", "migrate", <<>>))),
    Bad(RuleHost, "X_two_mig_d", "two_migrate", AddMember(AddMember(RuleHost, H("move_on", "migrate", <<>>)), H("move__on", "migrate", <<P("v", "u32")>>))),
    Bad(IfaceHost, "X_if_inst", "instantiate_in_interface", AddMember(IfaceHost, [H("instantiate", "instantiate", <<>>) EXCEPT !.body = ""])),
    Bad(IfaceHost, "X_if_mig", "migrate_in_interface", AddMember(IfaceHost, [H("migrate", "migrate", <<>>) EXCEPT !.body = ""])),
    \* several such handlers in one interface (each of them is an offence)
    Bad(IfaceHost, "X_if_inst2", "instantiate_in_interface", AddMember(AddMember(IfaceHost, [H("instantiate", "instantiate", <<>>) EXCEPT !.body = ""]),
                                                                       [H("instantiate2", "instantiate", <<P("a", "u32")>>) EXCEPT !.body = ""])),
    Bad(IfaceHost, "X_if_mig2", "migrate_in_interface", AddMember(AddMember(IfaceHost, [H("migrate", "migrate", <<>>) EXCEPT !.body = ""]),
                                                                  [H("migrate2", "migrate", <<P("a", "u32")>>) EXCEPT !.body = ""])),
    Bad(IfaceHost, "X_if_instmig", "instantiate_in_interface", AddMember(AddMember(IfaceHost, [H("instantiate", "instantiate", <<>>) EXCEPT !.body = ""]),
                                                                         [H("migrate", "migrate", <<>>) EXCEPT !.body = ""])),
    Bad(IfaceHost, "X_if_gen", "generics_on_interface", [IfaceHost EXCEPT !.self_ty = "Iface<T>"]),
    \* ... of whatever kind: a lifetime, a (defaulted) constant, a constant after a lifetime
    Bad(IfaceHost, "X_if_gen_lt", "generics_on_interface", [IfaceHost EXCEPT !.self_ty = "Iface<'a>"]),
    Bad(IfaceHost, "X_if_gen_const", "generics_on_interface", [IfaceHost EXCEPT !.self_ty = "Iface<const MAX: u64 = 10>"]),
    Bad(IfaceHost, "X_if_gen_ltconst", "generics_on_interface", [IfaceHost EXCEPT !.self_ty = "Iface<'a, const N: u8>"]),
    Bad(IfaceHost, "X_if_noerr", "interface_without_error_type", [IfaceHost EXCEPT !.noerror = TRUE]),
    Bad(RuleHost, "X_kind", "unknown_message_kind", SetMember(RuleHost, 3, [RuleHost.members[3] EXCEPT !.attrs = <<A("sv::msg", "execute")>>])),
    Bad(RuleHost, "X_msgarg", "unknown_sv_msg_argument", SetMember(RuleHost, 3, [RuleHost.members[3] EXCEPT !.attrs = <<A("sv::msg", "exec, foo = bar")>>])),
    Bad(ReplyHost, "X_replyon", "unknown_reply_on", AddMember(ReplyHost, [RH("on_done", "sometimes", <<RawP>>) EXCEPT !.params = <<P("r", "SubMsgResult"), RawP>>])),
    Bad(RuleHost, "X_dupmsg", "two_sv_msg_on_one_method", SetMember(RuleHost, 3, [RuleHost.members[3] EXCEPT !.attrs = <<A("sv::msg", "exec"), A("sv::msg", "exec")>>])),
    Bad(RuleHost, "X_dupcustom", "two_sv_custom", [RuleHost EXCEPT !.attrs = @ \o <<A("sv::custom", "msg = Empty"), A("sv::custom", "msg = Empty")>>]),
    Bad(RuleHost, "X_duperror", "two_sv_error", [RuleHost EXCEPT !.attrs = @ \o <<A("sv::error", "ContractError")>>]),
    Bad(RuleHost, "X_attr_inst", "sv_attr_on_instantiate", SetMember(RuleHost, 2, [RuleHost.members[2] EXCEPT !.attrs = @ \o <<A("sv::attr", "serde(rename = \"z\")")>>])),
    Bad(RuleHost, "X_pattern", "pattern_argument", SetMember(RuleHost, 3, [RuleHost.members[3] EXCEPT !.params = <<P("(a, b)", "(u32, u32)")>>])),
    Bad(RuleHost, "X_ctxattr", "sylvia_attribute_on_ctx", SetMember(RuleHost, 3, [RuleHost.members[3] EXCEPT !.ctxattr = "#[sv::data]"])),
    Bad(ReplyHost, "X_r_nopayload", "reply_without_payload", AddMember(ReplyHost, RH("on_done", "success", <<>>))),
    Bad(ReplyHost, "X_r_datasecond", "data_marker_not_first", AddMember(ReplyHost, RH("on_done", "success", <<P("p", "u32"), DataP(A("sv::data", "raw"))>>))),
    Bad(ReplyHost, "X_r_dataerr", "data_marker_on_error_handler", AddMember(ReplyHost, RH("on_done", "error", <<P("e", "String"), DataP(A("sv::data", "raw")), RawP>>))),
    Bad(ReplyHost, "X_r_afterraw", "parameter_after_raw_payload", AddMember(ReplyHost, RH("on_done", "success", <<RawP, P("p", "u32")>>))),
    Bad(ReplyHost, "X_r_beforeraw", "parameter_before_raw_payload", AddMember(ReplyHost, RH("on_done", "success", <<P("p", "u32"), RawP>>))),
    Bad(ReplyHost, "X_dataarg", "unknown_sv_data_argument", AddMember(ReplyHost, RH("on_done", "success", <<DataP(A("sv::data", "foo")), RawP>>))),
    Bad(ReplyHost, "X_datainstraw", "sv_data_instantiate_with_raw", AddMember(ReplyHost, RH("on_done", "success", <<DataP(A("sv::data", "instantiate, raw")), RawP>>))),
    Bad(ReplyHost, "X_payloadempty", "sv_payload_without_argument", AddMember(ReplyHost, RH("on_done", "success", <<[P("payload", "Binary") EXCEPT !.attrs = <<A("sv::payload", "")>>]>>))),
    Bad(ReplyHost, "X_payloadarg", "unknown_sv_payload_argument", AddMember(ReplyHost, RH("on_done", "success", <<[P("payload", "Binary") EXCEPT !.attrs = <<A("sv::payload", "foo")>>]>>))),
    \* data / payload markers on handlers that are no reply handlers: the expansion itself raises nothing, the program must
    \* not compile all the same (expect = "rustc": an error of the compiler inside the offending method)
    [Bad(RuleHost, "X_mk_exec", "payload_marker_on_exec_handler",
         SetMember(RuleHost, 3, [RuleHost.members[3] EXCEPT !.params = <<P("x", "u32"), RawPn("tag")>>])) EXCEPT !.expect = "rustc"],
    [Bad(RuleHost, "X_mk_inst", "data_marker_on_instantiate_handler",
         SetMember(RuleHost, 2, [RuleHost.members[2] EXCEPT !.params = <<P("a", "u32"), DataP(A("sv::data", "raw"))>>])) EXCEPT !.expect = "rustc"],
    [Bad(IfaceHost, "X_mk_ifq", "data_marker_on_interface_query",
         SetMember(IfaceHost, 2, [IfaceHost.members[2] EXCEPT !.params = <<P("q", "u32"), DataP(A("sv::data", ""))>>])) EXCEPT !.expect = "rustc"],
    \* two methods claiming the same reply name and outcome; merged methods with different payloads
    Bad(ReplyHost, "X_r_overlap", "two_methods_for_one_reply_name_and_outcome",
        AddMember(AddMember(ReplyHost, RH2("on_ok", "success", <<P("tag", "Binary")>>)), RH2("on_err", "success", <<P("tag", "Binary")>>))),
    Bad(ReplyHost, "X_r_overlap_always", "always_method_next_to_another_method_of_the_reply_name",
        AddMember(AddMember(ReplyHost, RH2("on_ok", "error", <<P("e", "String"), P("tag", "Binary")>>)),
                  [RH2("on_err", "always", <<P("tag", "Binary")>>) EXCEPT !.params = <<P("r", "SubMsgResult"), P("tag", "Binary")>>])),
    Bad(ReplyHost, "X_r_payload_types", "merged_methods_with_different_payload_types",
        AddMember(AddMember(ReplyHost, RH2("on_ok", "success", <<P("tag", "Binary")>>)), RH2("on_err", "error", <<P("e", "String"), P("tag", "u32")>>))),
    Bad(ReplyHost, "X_r_payload_samelast", "merged_methods_with_different_payload_types",
        AddMember(AddMember(ReplyHost, RH2("on_ok", "success", <<P("tag", "crate::v1::Note")>>)), RH2("on_err", "error", <<P("e", "String"), P("tag", "crate::v2::Note")>>))),
    Bad(ReplyHost, "X_r_payload_samelast2", "merged_methods_with_different_payload_types",
        AddMember(AddMember(ReplyHost, RH2("on_ok", "success", <<P("tag", "Vec<v1::Note>")>>)), RH2("on_err", "error", <<P("e", "String"), P("tag", "Vec<v2::Note>")>>))),
    Bad(ReplyHost, "X_r_payload_arity", "merged_methods_with_different_payload_arity",
        AddMember(AddMember(ReplyHost, RH2("on_ok", "success", <<P("tag", "Binary")>>)),
                  RH2("on_err", "error", <<P("e", "String"), P("tag", "Binary"), P("more", "u32")>>))),
    \* the same offences in the method declared second for a reply name two methods share
    Bad(ReplyHost, "X_r2_afterraw", "parameter_after_raw_payload_in_second_method",
        AddMember(AddMember(ReplyHost, RH2("on_err", "error", <<P("e", "String"), P("tag", "Binary"), P("note", "Binary")>>)),
                  RH2("on_ok", "success", <<RawPn("tag"), P("note", "Binary")>>))),
    Bad(ReplyHost, "X_r2_beforeraw", "parameter_before_raw_payload_in_second_method",
        AddMember(AddMember(ReplyHost, RH2("on_ok", "success", <<P("tag", "Binary"), P("note", "Binary")>>)),
                  RH2("on_err", "error", <<P("e", "String"), P("tag", "Binary"), RawPn("note")>>))),
    Bad(ReplyHost, "X_r2_payloadarg", "unknown_sv_payload_argument_in_second_method",
        AddMember(AddMember(ReplyHost, RH2("on_err", "error", <<P("e", "String"), P("tag", "Binary")>>)),
                  RH2("on_ok", "success", <<[P("tag", "Binary") EXCEPT !.attrs = <<A("sv::payload", "foo")>>]>>))),
    Bad(ReplyHost, "X_r2_dataarg", "unknown_sv_data_argument_in_second_method",
        AddMember(AddMember(ReplyHost, RH2("on_err", "error", <<P("e", "String"), P("tag", "Binary")>>)),
                  RH2("on_ok", "success", <<DataP(A("sv::data", "foo")), P("tag", "Binary")>>))),
    Ok(AddMember(AddMember(ReplyHost, RH2("on_err", "error", <<P("e", "String"), P("tag", "Binary")>>)),
                 RH2("on_ok", "success", <<DataP(A("sv::data", "raw")), P("tag", "Binary")>>)), "K_r2_ok"),
    Bad(RuleHost, "X_features", "unknown_feature", [RuleHost EXCEPT !.attrs = @ \o <<A("sv::features", "bogus")>>]),
    Bad(RuleHost, "X_customarg", "unknown_sv_custom_argument", [RuleHost EXCEPT !.attrs = @ \o <<A("sv::custom", "foo = Empty")>>]),
    Bad(RuleHost, "X_messages", "trailing_tokens_in_sv_messages", [RuleHost EXCEPT !.attrs = @ \o <<A("sv::messages", "i1 as Iface1 garbage")>>]),
    \* unknown arguments of the custom(..) part of sv::messages: alone, after and before a known one
    Bad(RuleHost, "X_msgcustom1", "unknown_argument_in_messages_custom", [RuleHost EXCEPT !.attrs = @ \o <<A("sv::messages", "i1 as Iface1: custom(bogus)")>>]),
    Bad(RuleHost, "X_msgcustom2", "unknown_argument_in_messages_custom", [RuleHost EXCEPT !.attrs = @ \o <<A("sv::messages", "i1 as Iface1: custom(msg, bogus)")>>]),
    Bad(RuleHost, "X_msgcustom3", "unknown_argument_in_messages_custom", [RuleHost EXCEPT !.attrs = @ \o <<A("sv::messages", "i1 as Iface1: custom(bogus, query)")>>]),
    Bad(RuleHost, "X_msgattr", "unknown_kind_in_sv_msg_attr", [RuleHost EXCEPT !.attrs = @ \o <<A("sv::msg_attr", "bogus, derive(PartialOrd)")>>]),
    Bad(RuleHost, "X_override", "unknown_kind_in_override_entry_point", [RuleHost EXCEPT !.attrs = @ \o <<A("sv::override_entry_point", "bogus = crate::f(M)")>>]),
    Bad(RuleHost, "X_alias", "query_with_aliased_result_and_no_resp", SetMember(RuleHost, 4, [RuleHost.members[4] EXCEPT !.ret = "MyResult"])),
    Bad(RuleHost, "X_epgenerics", "entry_points_without_concrete_types",
        [RuleHost EXCEPT !.macro = "entry_points", !.generics = <<"T">>, !.self_ty = "Ctr<T>"]),
    Bad(RuleHost, "X_epnoinst", "entry_points_without_instantiate",
        [WithMembers(RuleHost, <<New, RuleHost.members[3]>>) EXCEPT !.macro = "entry_points"]) }

(* where the diagnostic of a rule must point: the members (methods) any of which carries the offence; none = the item itself *)
(* (its attributes or header), i.e. anywhere in the item                                                                  *)
SitesOf(rule) ==
    CASE rule = "new_with_parameter" -> <<"new">>
      [] rule = "two_instantiate" -> <<"instantiate", "instantiate2", "instantiate_", "_instantiate", "init_contract", "init__contract">>
      [] rule = "two_migrate" -> <<"migrate", "migrate2", "migrate_", "move_on", "move__on">>
      [] rule = "instantiate_in_interface" -> <<"instantiate", "instantiate2", "migrate">>
      [] rule = "migrate_in_interface" -> <<"migrate", "migrate2">>
      [] rule \in {"unknown_message_kind", "unknown_sv_msg_argument", "two_sv_msg_on_one_method", "pattern_argument",
                   "sylvia_attribute_on_ctx"} -> <<"foo">>
      [] rule = "sv_attr_on_instantiate" -> <<"instantiate">>
      [] rule = "query_with_aliased_result_and_no_resp" -> <<"ask">>
      [] rule = "payload_marker_on_exec_handler" -> <<"foo">>
      [] rule = "data_marker_on_instantiate_handler" -> <<"instantiate">>
      [] rule = "data_marker_on_interface_query" -> <<"ask">>
      [] rule \in {"unknown_reply_on", "reply_without_payload", "data_marker_not_first", "data_marker_on_error_handler",
                   "parameter_after_raw_payload", "parameter_before_raw_payload", "unknown_sv_data_argument",
                   "sv_data_instantiate_with_raw", "sv_payload_without_argument", "unknown_sv_payload_argument"} -> <<"on_done">>
      [] rule \in {"parameter_after_raw_payload_in_second_method", "unknown_sv_payload_argument_in_second_method",
                   "unknown_sv_data_argument_in_second_method"} -> <<"on_ok">>
      [] rule = "parameter_before_raw_payload_in_second_method" -> <<"on_err">>
      [] rule \in {"two_methods_for_one_reply_name_and_outcome", "always_method_next_to_another_method_of_the_reply_name",
                   "merged_methods_with_different_payload_types", "merged_methods_with_different_payload_arity"} -> <<"on_ok", "on_err">>
      [] OTHER -> <<>>
WithSites(it) == it @@ [sites |-> SitesOf(it.rule)]

(* ---------------------------------------------------------------- model *)
FwNoHandlers == {FwNoHandlerItem("contract", "FNc"), FwNoHandlerItem("interface", "FNi")}
Items == TLCEval(SetToSeq({WithSites(it) : it \in EpFamily \cup PtFamily \cup FwFamily \cup FwGen \cup FwSame \cup FwDerives \cup FwTriples \cup FwNoHandlers \cup GenFamily \cup RuleFamily}))

VARIABLES item,      \* index into Items
          stage,     \* "source" | "expanded"
          eps        \* entry points the expansion defines
svars == <<item, stage, eps>>
It == Items[item]

Init == item \in 1..Len(Items) /\ stage = "source" /\ eps = {}
Expand ==
    /\ stage = "source"
    /\ stage' = "expanded"
    /\ eps' = IF It.macro = "entry_points" THEN ExpectedEntryPoints(It) ELSE {}
    /\ UNCHANGED item
Next == Expand
Spec == Init /\ [][Next]_svars

(* C06 at design level: overriding a kind removes that entry point and nothing else *)
Twin(it) == [it EXCEPT !.overrides = <<>>]
C06_OverrideIsLocal ==
    (stage = "expanded" /\ It.macro = "entry_points") =>
        /\ eps = ExpectedEntryPoints(Twin(It)) \ {EpName(k) : k \in Overridden(It)}
        /\ {"instantiate", "execute", "query", "sudo"} \ {EpName(k) : k \in Overridden(It)} \subseteq eps
        /\ ("migrate" \in eps) => HasHandler(It, "migrate")
        /\ ("reply" \in eps) => HasHandler(It, "reply")
(* C15 at design level: a parameter is carried by a type iff a handler of that kind mentions it *)
C15_UsedIsUnionOfMentions ==
    It.family = "gen" =>
        \A k \in {"instantiate", "exec", "query", "sudo"} :
            Used(It, k) \subseteq SeqToSet(It.generics)

EmitItems ==
    /\ TLCGet("stats").generated > 0
    /\ ndJsonSerialize(IOEnv.VERIF_OUT, Items)
    /\ PrintT(<<"ITEMS", Len(Items), "ep", Cardinality(EpFamily), "pt", Cardinality(PtFamily),
                "fw", Cardinality(FwFamily), "gen", Cardinality(GenFamily), "rule", Cardinality(RuleFamily)>>)
=============================================================================
