----------------------------- MODULE MC_Static -----------------------------
(***************************************************************************)
(* Bounded families of source items for the shape-of-the-expansion         *)
(* properties, the (one-step) expansion machine over them, and emission of *)
(* the items for the in-process harness.                                   *)
(*   ep   C06  all override subsets x migrate x reply x replies x generic  *)
(*   pt   C13  attribute placements on item / handler / helper / params    *)
(*   fw   C17  placements of forwarded marker attributes                   *)
(*   gen  C15  assignments of type parameters to handler arguments         *)
(***************************************************************************)
EXTENDS Static, Json, IOUtils

CONSTANTS PtChoices,    \* attribute placements per site explored in family pt (1..PtChoices of the pool)
          GenParams     \* number of type parameters in family gen

Ctx(k) == CASE k = "exec" -> "ExecCtx" [] k = "query" -> "QueryCtx" [] k = "sudo" -> "SudoCtx"
            [] k = "instantiate" -> "InstantiateCtx" [] k = "migrate" -> "MigrateCtx" [] OTHER -> "ReplyCtx"
Ret(k) == IF k = "query" THEN "StdResult<QResp>" ELSE "StdResult<Response>"

P(n, ty) == [n |-> n, ty |-> ty, attrs |-> <<>>, mentions |-> <<>>]
H(name, k, params) ==
    [name |-> name, vis |-> "", attrs |-> <<A("sv::msg", k)>>, kind |-> k, ctx |-> Ctx(k),
     params |-> params, ret |-> Ret(k), body |-> "todo!()", retm |-> <<>>]
New == [name |-> "new", vis |-> "pub const", attrs |-> <<>>, kind |-> "", ctx |-> "",
        params |-> <<>>, ret |-> "Self", body |-> "Ctr", retm |-> <<>>]
BaseItem(id, fam, mac) ==
    [id |-> id, family |-> fam, macro |-> mac, mattr |-> "", attrs |-> <<>>, generics |-> <<>>, wheres |-> <<>>,
     assoc |-> <<>>, self_ty |-> "Ctr", members |-> <<>>, twin |-> "", overrides |-> <<>>, forwards |-> <<>>]

(* ------------------------------------------------------------------ ep *)
KindSeq == <<"instantiate", "exec", "query", "sudo", "migrate", "reply">>
OvAttr(k) == A("sv::override_entry_point", k \o " = crate::ov::" \o k \o "(OvMsg)")
B2S(b) == IF b THEN "1" ELSE "0"
EpItem(ov, mig, rep, feat, gen) ==
    LET ovs == SelectSeq(KindSeq, LAMBDA k : k \in ov)
        replyH == IF feat
                  THEN [H("on_done", "reply", <<P("payload", "Binary")>>) EXCEPT
                          !.attrs = <<A("sv::msg", "reply, reply_on = always")>>,
                          !.params = <<P("result", "SubMsgResult"), [P("payload", "Binary") EXCEPT !.attrs = <<A("sv::payload", "raw")>>]>>]
                  ELSE H("on_done", "reply", <<P("reply", "Reply")>>)
    IN [BaseItem("E" \o B2S(mig) \o B2S(rep) \o B2S(feat) \o B2S(gen) \o "_"
                     \o FoldLeft(LAMBDA acc, k : acc \o (IF k \in ov THEN "1" ELSE "0"), "", KindSeq),
                 "ep", "entry_points") EXCEPT
          !.mattr = IF gen THEN "generics<Empty>" ELSE "",
          !.attrs = [i \in 1..Len(ovs) |-> OvAttr(ovs[i])] \o (IF feat THEN <<A("sv::features", "replies")>> ELSE <<>>),
          !.generics = IF gen THEN <<"T">> ELSE <<>>,
          !.self_ty = IF gen THEN "Ctr<T>" ELSE "Ctr",
          !.overrides = ovs,
          !.twin = B2S(mig) \o B2S(rep) \o B2S(feat) \o B2S(gen),
          !.members = <<New, H("instantiate", "instantiate", IF gen THEN <<[P("x", "T") EXCEPT !.mentions = <<"T">>]>> ELSE <<P("x", "u32")>>)>>
                      \o <<H("do_it", "exec", <<>>)>>
                      \o (IF mig THEN <<H("migrate", "migrate", <<>>)>> ELSE <<>>)
                      \o (IF rep THEN <<replyH>> ELSE <<>>)]
EpFamily == {EpItem(ov, mig, rep, feat, gen) :
                ov \in SUBSET AllKinds, mig \in BOOLEAN, rep \in BOOLEAN, feat \in BOOLEAN, gen \in BOOLEAN}

(* ------------------------------------------------------------------ pt *)
(* attribute pools per site; choice 0 = nothing *)
ItemPool == << <<A("sv::error", "ContractError")>>,
               <<A("allow", "dead_code"), A("sv::messages", "i1 as Iface1")>>,
               <<A("cfg", "not(feature = \"zz\")"), A("sv::msg_attr", "exec, derive(PartialOrd)"), A("doc", "= \" item doc\"")>> >>
HandlerPool == << <<A("inline", "")>>,
                  <<A("doc", "= \" handler doc\""), A("sv::attr", "serde(rename = \"zz\")")>>,
                  <<A("allow", "unused_variables"), A("must_use", "")>> >>
HelperPool == << <<A("inline", "always")>>,
                 <<A("doc", "= \" helper doc\""), A("cfg", "test")>>,
                 <<A("allow", "clippy::all")>> >>
HParamPool == << <<A("serde", "default")>>,
                 <<A("cfg", "all()")>>,
                 <<A("allow", "unused_variables"), A("serde", "rename = \"q\"")>> >>
LParamPool == << <<A("cfg", "any()")>>,
                 <<A("allow", "unused_variables")>>,
                 <<A("cfg", "all()"), A("allow", "unused")>> >>
Pick(pool, c) == IF c = 0 THEN <<>> ELSE pool[c]
PtItem(mac, c) ==      \* c: choice per site <<item, handler, helper, handler param, helper param>>
    LET handler == [H("foo", "exec", <<[P("x", "u32") EXCEPT !.attrs = Pick(HParamPool, c[4])], P("y", "String")>>) EXCEPT
                       !.attrs = Pick(HandlerPool, c[2]) \o <<A("sv::msg", "exec")>>, !.vis = "pub"]
        helper == [name |-> "helper", vis |-> "pub(crate)", attrs |-> Pick(HelperPool, c[3]), kind |-> "", ctx |-> "",
                   params |-> <<[P("z", "u32") EXCEPT !.attrs = Pick(LParamPool, c[5])]>>, ret |-> "u32",
                   body |-> "7", retm |-> <<>>]
        id == "P" \o (IF mac = "contract" THEN "c" ELSE IF mac = "interface" THEN "i" ELSE "e")
                  \o ToString(c[1]) \o ToString(c[2]) \o ToString(c[3]) \o ToString(c[4]) \o ToString(c[5])
    IN IF mac = "interface"
       THEN [BaseItem(id, "pt", mac) EXCEPT
               !.attrs = SelectSeq(Pick(ItemPool, c[1]), LAMBDA a : a.p \notin {"sv::error", "sv::messages"})
                         \o <<A("sv::custom", "msg = Empty, query = Empty")>>,
               !.self_ty = "Iface",
               !.members = << [handler EXCEPT !.vis = "", !.body = ""],
                              [helper EXCEPT !.vis = "", !.body = IF c[3] = 1 THEN "7" ELSE ""] >>]
       ELSE [BaseItem(id, "pt", mac) EXCEPT
               !.attrs = Pick(ItemPool, c[1]),
               !.members = <<New, H("instantiate", "instantiate", <<>>), handler, helper>>]
PtFamily == {PtItem(mac, c) : mac \in {"contract", "interface", "entry_points"}, c \in [1..5 -> 0..PtChoices]}

(* ------------------------------------------------------------------ fw *)
Marker(i) == A("doc", "= \"m" \o ToString(i) \o "\"")
FwMethods == << H("instantiate", "instantiate", <<P("a", "u32")>>), H("foo", "exec", <<P("x", "u32"), P("y", "u32")>>),
                H("bar", "exec", <<P("x", "u32")>>), H("ask", "query", <<P("q", "u32")>>), H("poke", "sudo", <<P("s", "u32")>>),
                H("migrate", "migrate", <<P("v", "u32")>>) >>
FwSites ==      \* every site a marker can be forwarded to
       {[site |-> "type", kind |-> k, method |-> "", param |-> "", m |-> A("", "")] : k \in AllKinds}
  \cup {[site |-> "variant", kind |-> FwMethods[i].kind, method |-> FwMethods[i].name, param |-> "", m |-> A("", "")] :
           i \in {j \in 1..Len(FwMethods) : FwMethods[j].kind \in {"exec", "query", "sudo"}}}
  \cup UNION {{[site |-> "field", kind |-> FwMethods[i].kind, method |-> FwMethods[i].name, param |-> FwMethods[i].params[x].n, m |-> A("", "")] :
                  x \in 1..Len(FwMethods[i].params)} : i \in 1..Len(FwMethods)}
WithForward(members, f, mk) ==
    [i \in 1..Len(members) |->
        IF f.site = "variant" /\ members[i].name = f.method
        THEN [members[i] EXCEPT !.attrs = @ \o <<A("sv::attr", mk.p \o " " \o mk.t)>>]
        ELSE IF f.site = "field" /\ members[i].name = f.method
        THEN [members[i] EXCEPT !.params = [x \in 1..Len(@) |-> IF @[x].n = f.param THEN [@[x] EXCEPT !.attrs = <<mk>>] ELSE @[x]]]
        ELSE members[i]]
FwItem(mac, s1, s2) ==      \* two markers at two (possibly equal-kind) sites
    LET ms0 == IF mac = "interface"
               THEN SelectSeq(FwMethods, LAMBDA m : m.kind \in {"exec", "query", "sudo"})
               ELSE <<New>> \o FwMethods
        ms1 == WithForward(ms0, s1, Marker(1))
        ms2 == WithForward(ms1, s2, Marker(2))
        typeAttrs == (IF s1.site = "type" THEN <<A("sv::msg_attr", s1.kind \o ", " \o Marker(1).p \o " " \o Marker(1).t)>> ELSE <<>>)
                  \o (IF s2.site = "type" THEN <<A("sv::msg_attr", s2.kind \o ", " \o Marker(2).p \o " " \o Marker(2).t)>> ELSE <<>>)
    IN [BaseItem("F", "fw", mac) EXCEPT
          !.attrs = typeAttrs \o (IF mac = "interface" THEN <<A("sv::custom", "msg = Empty, query = Empty")>> ELSE <<>>),
          !.self_ty = IF mac = "interface" THEN "Iface" ELSE "Ctr",
          !.members = [i \in 1..Len(ms2) |-> IF mac = "interface" THEN [ms2[i] EXCEPT !.body = ""] ELSE ms2[i]],
          !.forwards = <<[s1 EXCEPT !.m = Marker(1)] , [s2 EXCEPT !.m = Marker(2)]>>]
FwSitesFor(mac) == IF mac = "interface"
                   THEN {s \in FwSites : s.kind \in {"exec", "query", "sudo", "reply"} \/ s.site = "type"}
                   ELSE FwSites
FwSeq(mac) == SetToSeq({<<s1, s2>> \in FwSitesFor(mac) \X FwSitesFor(mac) : s1 # s2})
FwFamily == UNION {{[FwItem(mac, [FwSeq(mac)[i][1] EXCEPT !.m = Marker(1)], [FwSeq(mac)[i][2] EXCEPT !.m = Marker(2)])
                        EXCEPT !.id = "F" \o (IF mac = "contract" THEN "c" ELSE "i") \o ToString(i)] :
                      i \in 1..Len(FwSeq(mac))} : mac \in {"contract", "interface"}}

(* ----------------------------------------------------------------- gen *)
TP(i) == "T" \o ToString(i)
Params == [i \in 1..GenParams |-> TP(i)]
(* occurrence shapes of one parameter set inside an argument type *)
TyDirect(t) == [ty |-> t, mentions |-> <<t>>]
TyOpt(t) == [ty |-> "Option<" \o t \o ">", mentions |-> <<t>>]
TyVecPair(t, u) == [ty |-> "Vec<(" \o t \o ", " \o u \o ")>", mentions |-> IF t = u THEN <<t>> ELSE <<t, u>>]
TyNone == [ty |-> "u32", mentions |-> <<>>]
ArgTypes == {TyNone} \cup {TyDirect(TP(i)) : i \in 1..GenParams} \cup {TyOpt(TP(i)) : i \in 1..GenParams}
            \cup {TyVecPair(TP(i), TP(j)) : i, j \in 1..GenParams}
GP(n, t) == [n |-> n, ty |-> t.ty, attrs |-> <<>>, mentions |-> t.mentions]
WherePool == [i \in 1..GenParams |-> [text |-> TP(i) \o ": Clone", mentions |-> <<TP(i)>>]]
             \o (IF GenParams >= 2 THEN <<[text |-> "T1: PartialEq<T2>", mentions |-> <<"T1", "T2">>]>> ELSE <<>>)
GenItem(ti, te, tq, tr, id) ==      \* types of: instantiate arg, exec arg, query arg, query response
    [BaseItem(id, "gen", "contract") EXCEPT
       !.generics = Params, !.wheres = WherePool,
       !.self_ty = "Ctr<" \o FoldLeft(LAMBDA acc, p : IF acc = "" THEN p ELSE acc \o ", " \o p, "", Params) \o ">",
       !.members = <<New, H("instantiate", "instantiate", <<GP("a", ti)>>),
                     H("foo", "exec", <<GP("x", te), P("n", "u32")>>),
                     [H("ask", "query", <<GP("q", tq)>>) EXCEPT
                        !.ret = "StdResult<" \o tr.ty \o ">", !.retm = tr.mentions],
                     H("poke", "sudo", <<>>)>>]
RespTypes == {TyNone} \cup {TyDirect(TP(i)) : i \in 1..GenParams}
GenSeq == SetToSeq(ArgTypes \X ArgTypes \X ArgTypes \X RespTypes)
GenFamily == {GenItem(GenSeq[i][1], GenSeq[i][2], GenSeq[i][3], GenSeq[i][4], "G" \o ToString(i)) : i \in 1..Len(GenSeq)}

(* ---------------------------------------------------------------- model *)
Items == TLCEval(SetToSeq(EpFamily \cup PtFamily \cup FwFamily \cup GenFamily))

VARIABLES item,      \* index into Items
          stage,     \* "source" | "expanded"
          eps        \* entry points the expansion defines
svars == <<item, stage, eps>>
It == Items[item]

Init == item \in 1..Len(Items) /\ stage = "source" /\ eps = {}
Expand ==
    /\ stage = "source"
    /\ stage' = "expanded"
    /\ eps' = IF It.macro = "entry_points" THEN ExpectedEntryPoints(It) ELSE {}
    /\ UNCHANGED item
Next == Expand
Spec == Init /\ [][Next]_svars

(* C06 at design level: overriding a kind removes that entry point and nothing else *)
Twin(it) == [it EXCEPT !.overrides = <<>>]
C06_OverrideIsLocal ==
    (stage = "expanded" /\ It.macro = "entry_points") =>
        /\ eps = ExpectedEntryPoints(Twin(It)) \ {EpName(k) : k \in Overridden(It)}
        /\ {"instantiate", "execute", "query", "sudo"} \ {EpName(k) : k \in Overridden(It)} \subseteq eps
        /\ ("migrate" \in eps) => HasHandler(It, "migrate")
        /\ ("reply" \in eps) => HasHandler(It, "reply")
(* C15 at design level: a parameter is carried by a type iff a handler of that kind mentions it *)
C15_UsedIsUnionOfMentions ==
    It.family = "gen" =>
        \A k \in {"instantiate", "exec", "query", "sudo"} :
            Used(It, k) \subseteq SeqToSet(It.generics)

EmitItems ==
    /\ TLCGet("stats").generated > 0
    /\ ndJsonSerialize(IOEnv.VERIF_OUT, Items)
    /\ PrintT(<<"ITEMS", Len(Items), "ep", Cardinality(EpFamily), "pt", Cardinality(PtFamily),
                "fw", Cardinality(FwFamily), "gen", Cardinality(GenFamily)>>)
=============================================================================
