---------------------------- MODULE Trace_Merge ----------------------------
(* Trace validation for `Merge` events: every recorded call of the real    *)
(* assert_no_intersection is re-run through the Merge machine (its loop    *)
(* iterations are silent steps) and the recorded verdict must be the       *)
(* machine's outcome.  Invariants of Merge.tla are evaluated at every step.*)
EXTENDS Merge, Json, IOUtils, TLC, TraceCommon

Rec == ndJsonDeserialize(IOEnv.VERIF_TRACE)

(* summary mode (large replays): one step per event, judged by the functional *)
(* summary Verdict, which MC_Merge shows equal to the machine's outcome       *)
Summary == "VERIF_MERGE_MODE" \in DOMAIN IOEnv /\ IOEnv.VERIF_MERGE_MODE = "summary"

VARIABLE l          \* the event whose call is being re-run (Len(Rec)+1 when all are consumed)
tvars == <<L, st, idx, outcome, pc, l>>

Load(k) ==           \* start the machine on event k's argument (primed MInit)
    /\ L' = IF k <= Len(Rec) THEN Rec[k].lists ELSE <<>>
    /\ st' = <<>>
    /\ idx' = 0
    /\ outcome' = "running"
    /\ pc' = IF k <= Len(Rec) THEN "init" ELSE "idle"

TInit ==
    /\ l = 1
    /\ TLCSet(1, 1)
    /\ PrintT(<<"TRACE-LEN", Len(Rec)>>)
    /\ L = IF Len(Rec) >= 1 THEN Rec[1].lists ELSE <<>>
    /\ st = <<>> /\ idx = 0 /\ outcome = "running"
    /\ pc = IF Len(Rec) >= 1 /\ ~Summary THEN "init" ELSE "idle"

TSilent == ~Summary /\ pc \notin {"done", "idle"} /\ MNext /\ UNCHANGED l

TMerge ==
    /\ ~Summary
    /\ pc = "done"
    /\ l <= Len(Rec)
    /\ Rec[l].ev = "Merge"
    /\ Chk("C05", "merge_verdict_is_machine_outcome", l, Rec[l].verdict = outcome)
    \* the order-free statement of the same verdict: whether two of the lists share a name does not depend on how they are ordered
    /\ Chk("C14", "acceptance_does_not_depend_on_the_order_of_the_parts", l,
           (\A i \in 1..Len(Rec[l].lists) : IsSortedStrict(Rec[l].lists[i])) => Rec[l].verdict = Verdict(Rec[l].lists))
    \* C03: this check is what keeps a document from being accepted by two parts at run time (first-match routing would then pick one)
    /\ Chk("C03", "a_name_two_parts_answer_to_does_not_get_past_the_build", l,
           (\A i \in 1..Len(Rec[l].lists) : IsSortedStrict(Rec[l].lists[i])) => Rec[l].verdict = Verdict(Rec[l].lists))
    /\ l' = l + 1
    /\ TLCSet(1, l + 1)
    /\ Load(l + 1)

TMergeSummary ==
    /\ Summary
    /\ l <= Len(Rec)
    /\ Rec[l].ev = "Merge"
    /\ Chk("C05", "merge_verdict_is_panic_iff_intersection", l,
           (\A i \in 1..Len(Rec[l].lists) : IsSortedStrict(Rec[l].lists[i])) => Rec[l].verdict = Verdict(Rec[l].lists))
    /\ l' = l + 1
    /\ TLCSet(1, l + 1)
    /\ UNCHANGED <<L, st, idx, outcome, pc>>

TNext == TSilent \/ TMerge \/ TMergeSummary
TSpec == TInit /\ [][TNext]_tvars

TraceAccepted ==
    LET reached == TLCGet(1) IN
    IF reached = Len(Rec) + 1 THEN TRUE
    ELSE Print(<<"UNMATCHED", reached, Rec[reached]>>, FALSE)
=============================================================================
