CONSTANTS
  Alphabet = {"a", "b", "1", "_"}
  NameLen = 4
  PerProg = 27
  SmallNames <- SmallNamesQuick
  Ifaces = 2
  BuilderSets = 2
  Variant <- VariantFast
  Wire <- WireFast
  Near <- NearFast
INIT Init
NEXT Next
INVARIANTS C10_RemoteRoutesBack C03_Routing C05_NoSharedName C04_KindSeparation C02_ExactlyOne C06_OnlyEmitted C06_OverrideReachesUser C06_OverrideIsLocal RejectedIffInvalid
POSTCONDITION EmitCorpus
CHECK_DEADLOCK FALSE
