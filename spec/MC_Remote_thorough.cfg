CONSTANTS
  NAddr = 200
INIT Init
NEXT Next
INVARIANTS C20_SingleMemberAddr C20_DecodesToSameAddress
POSTCONDITION Emit
CHECK_DEADLOCK FALSE
