CONSTANTS
  NAddr = 200
INIT Init
NEXT Next
INVARIANTS C20_SingleMemberAddr C20_DecodesToSameAddress C20_DecodedHandleEncodesAlike
POSTCONDITION Emit
CHECK_DEADLOCK FALSE
