//! C20: the stored remote handle. Replays TLC-enumerated (type parameter, owned/borrowed, address) cases into the real
//! `sylvia::types::Remote` and records its encoding, the decoding of the specification's literal and the schema name.
//! usage: verif-remote <stimuli.ndjson> <trace.ndjson> <seed>
#![allow(dead_code)]
use serde_json::json;
use sylvia::cw_std::{Addr, Response, StdError, StdResult};
use sylvia::types::Remote;

pub mod concrete {
    use super::*;
    use sylvia::ctx::InstantiateCtx;
    pub struct Ctr;
    #[sylvia::contract]
    impl Ctr {
        pub const fn new() -> Self {
            Ctr
        }
        #[sv::msg(instantiate)]
        fn instantiate(&self, _ctx: InstantiateCtx) -> StdResult<Response> {
            Ok(Response::new())
        }
    }
}

pub mod generic {
    use super::*;
    use sylvia::ctx::{ExecCtx, InstantiateCtx};
    pub struct GCtr<T>(std::marker::PhantomData<T>);
    #[sylvia::contract]
    impl<T> GCtr<T>
    where
        T: sylvia::types::CustomMsg + 'static,
    {
        pub const fn new() -> Self {
            GCtr(std::marker::PhantomData)
        }
        #[sv::msg(instantiate)]
        fn instantiate(&self, _ctx: InstantiateCtx) -> StdResult<Response> {
            Ok(Response::new())
        }
        #[sv::msg(exec)]
        fn put(&self, _ctx: ExecCtx, _v: T) -> StdResult<Response> {
            Ok(Response::new())
        }
    }
}

pub mod iface {
    use super::*;
    use sylvia::ctx::ExecCtx;
    #[sylvia::interface]
    #[sv::custom(msg=sylvia::cw_std::Empty, query=sylvia::cw_std::Empty)]
    pub trait Plain {
        type Error: From<StdError>;
        #[sv::msg(exec)]
        fn poke(&self, ctx: ExecCtx) -> Result<Response, Self::Error>;
    }
}

pub mod iface_assoc {
    use super::*;
    use sylvia::ctx::ExecCtx;
    #[sylvia::interface]
    #[sv::custom(msg=sylvia::cw_std::Empty, query=sylvia::cw_std::Empty)]
    pub trait WithAssoc {
        type Error: From<StdError>;
        type Item: sylvia::types::CustomMsg;
        #[sv::msg(exec)]
        fn put(&self, ctx: ExecCtx, v: Self::Item) -> Result<Response, Self::Error>;
    }
}

const ADDRS: [&str; 8] = ["cosmos1abc", "", "a\"quote", "back\\slash", "uni\u{00e9}\u{4e2d}", "new\nline", "{\"addr\":\"x\"}", "  spaced  "];

fn pseudo_random_addr(seed: u64, i: u64) -> String {
    // small deterministic generator (no external crates needed): printable ASCII incl. quotes and backslashes
    let mut x = seed.wrapping_mul(6364136223846793005).wrapping_add(i.wrapping_mul(1442695040888963407)) | 1;
    let len = (x >> 60) as usize + 1;
    let mut s = String::new();
    for _ in 0..len {
        x ^= x << 13;
        x ^= x >> 7;
        x ^= x << 17;
        s.push((32 + (x % 95) as u8) as char);
    }
    s
}

fn observe<T: ?Sized>(ty: &str, owned: bool, addr_text: &str, aix: u64) {
    let addr = Addr::unchecked(addr_text);
    let handle: Remote<T> = if owned { Remote::new(addr.clone()) } else { Remote::borrowed(&addr) };
    let enc = sylvia::cw_std::to_json_vec(&handle);
    let (encj, enc_ok) = match &enc {
        Ok(b) => (verif_rt::tag_text(b), true),
        Err(e) => (json!({"t":"x","v":e.to_string()}), false),
    };
    // the literal the specification prescribes: {"addr": <the address as a JSON string>}
    let literal = format!("{{\"addr\":{}}}", serde_json::to_string(addr_text).unwrap());
    let dec: Result<Remote<'static, T>, _> = sylvia::cw_std::from_json(literal.as_bytes());
    let (dec_ok, dec_addr) = match &dec {
        Ok(h) => (true, h.as_ref().to_string()),
        Err(_) => (false, String::new()),
    };
    let tagged = |h: &Remote<'static, T>| sylvia::cw_std::to_json_vec(h).map(|b| verif_rt::tag_text(&b)).unwrap_or_else(|e| json!({"t":"x","v":e.to_string()}));
    let dec_json = dec.as_ref().map(|h| tagged(h)).unwrap_or(json!({"t":"-"}));
    // the same record with further members next to `addr` (a record written by another version of the contract, say)
    let loose_doc = format!("{{\"code_id\":7,\"addr\":{},\"label\":\"x\"}}", serde_json::to_string(addr_text).unwrap());
    let loose: Result<Remote<'static, T>, _> = sylvia::cw_std::from_json(loose_doc.as_bytes());
    let (loose_ok, loose_addr, loose_json) = match &loose {
        Ok(h) => (true, h.as_ref().to_string(), tagged(h)),
        Err(_) => (false, String::new(), json!({"t":"-"})),
    };
    let own_round = enc.as_ref().ok().and_then(|b| sylvia::cw_std::from_json::<Remote<'static, T>>(b).ok()).map(|h| h.as_ref().to_string());
    let schema = schemars::schema_for!(Remote<'static, T>);
    let name = schema.schema.metadata.as_ref().and_then(|m| m.title.clone()).unwrap_or_default();
    let props: Vec<String> = schema.schema.object.as_ref().map(|o| o.properties.keys().cloned().collect()).unwrap_or_default();
    let required: Vec<String> = schema.schema.object.as_ref().map(|o| o.required.iter().cloned().collect()).unwrap_or_default();
    verif_rt::emit(json!({"ev":"RemoteEnc","ty":ty,"owned":owned,"aix":aix,"addr":addr_text,"enc_ok":enc_ok,"json":encj,
        "dec_ok":dec_ok,"dec_addr":dec_addr,"dec_json":dec_json,"loose_ok":loose_ok,"loose_addr":loose_addr,"loose_json":loose_json,"round_ok":own_round.is_some(),"round_addr":own_round.unwrap_or_default(),
        "schema_name":name,"schema_props":props,"schema_required":required}));
}

/// A contract's state holding handles of every kind: one schema generator run over all of them.
#[derive(schemars::JsonSchema)]
#[allow(dead_code)]
struct Store {
    a: Remote<'static, concrete::Ctr>,
    b: Remote<'static, generic::GCtr<sylvia::cw_std::Empty>>,
    c: Remote<'static, dyn iface::Plain<Error = StdError>>,
    d: Remote<'static, dyn iface_assoc::WithAssoc<Error = StdError, Item = sylvia::cw_std::Empty>>,
    e: Remote<'static, ()>,
}

fn observe_store() {
    let root = schemars::schema_for!(Store);
    let defs: Vec<String> = root.definitions.keys().cloned().collect();
    let refs: Vec<String> = root.schema.object.as_ref().map(|o| o.properties.values().map(|p| match p {
        schemars::schema::Schema::Object(so) => so.reference.clone()
            .or_else(|| so.subschemas.as_ref().and_then(|s| s.all_of.as_ref()).and_then(|v| v.first()).and_then(|x| match x {
                schemars::schema::Schema::Object(y) => y.reference.clone(),
                _ => None,
            }))
            .unwrap_or_else(|| "inline".to_string()),
        _ => "bool".to_string(),
    }).collect()).unwrap_or_default();
    verif_rt::emit(json!({"ev":"RemoteStore","fields":5,"defs":defs,"refs":refs}));
}

fn main() {
    let a: Vec<String> = std::env::args().collect();
    let stim = verif_rt::read_ndjson(&a[1]);
    verif_rt::open_trace(&a[2]);
    let seed: u64 = a.get(3).and_then(|s| s.parse().ok()).unwrap_or(1);
    for s in &stim {
        let ty = s["ty"].as_str().unwrap_or("");
        let owned = s["owned"].as_bool().unwrap_or(true);
        let aix = s["addr"].as_u64().unwrap_or(1);
        let text = if (aix as usize) <= ADDRS.len() { ADDRS[aix as usize - 1].to_string() } else { pseudo_random_addr(seed, aix) };
        match ty {
            "contract" => observe::<concrete::Ctr>(ty, owned, &text, aix),
            "generic" => observe::<generic::GCtr<sylvia::cw_std::Empty>>(ty, owned, &text, aix),
            "dyn" => observe::<dyn iface::Plain<Error = StdError>>(ty, owned, &text, aix),
            "dyn_assoc" => observe::<dyn iface_assoc::WithAssoc<Error = StdError, Item = sylvia::cw_std::Empty>>(ty, owned, &text, aix),
            _ => observe::<()>(ty, owned, &text, aix),
        }
    }
    observe_store();
    verif_rt::close_trace();
}
