//! Recorder runtime shared by every conformance binary.
//!
//! Contains no expectations: only (1) an exact JSON reader that keeps duplicate keys,
//! member order and number spelling, (2) the *tagged* projection of JSON into the subset
//! TLC's Json module represents faithfully (DESIGN §5.3), (3) an ndjson event writer.

use serde_json::{json, Value};
use std::cell::RefCell;
use std::fs::File;
use std::io::{BufWriter, Write};

pub mod xjson;
pub use xjson::{parse as parse_exact, XJ};

/// Tagged projection of exact JSON.
///   scalars  {"t":"s"|"n"|"b"|"z","v":<text>}
///   arrays   {"t":"a","e":[..]}
///   objects  {"t":"o","f":[{"k":key,"v":..},..]}  (members in document order, duplicates kept)
pub fn tag(x: &XJ) -> Value {
    match x {
        XJ::Null => json!({"t":"z","v":"null"}),
        XJ::Bool(b) => json!({"t":"b","v": if *b {"true"} else {"false"}}),
        XJ::Num(n) => json!({"t":"n","v": n}),
        XJ::Str(s) => json!({"t":"s","v": s}),
        XJ::Arr(a) => json!({"t":"a","e": a.iter().map(tag).collect::<Vec<_>>()}),
        XJ::Obj(o) => json!({"t":"o","f": o.iter().map(|(k, v)| json!({"k": k, "v": tag(v)})).collect::<Vec<_>>()}),
    }
}

/// Tagged projection of JSON text; text that is not JSON is reported as such (data, not failure).
pub fn tag_text(text: &[u8]) -> Value {
    match std::str::from_utf8(text).ok().and_then(|t| parse_exact(t).ok()) {
        Some(x) => tag(&x),
        None => json!({"t":"x","v": String::from_utf8_lossy(text)}),
    }
}

thread_local! {
    static OUT: RefCell<Option<BufWriter<File>>> = const { RefCell::new(None) };
}

/// Open the trace file named by `VERIF_TRACE` (or the given path).
pub fn open_trace(path: &str) {
    let f = File::create(path).unwrap_or_else(|e| panic!("cannot create trace {path}: {e}"));
    OUT.with(|o| *o.borrow_mut() = Some(BufWriter::new(f)));
}

pub fn emit(ev: Value) {
    OUT.with(|o| {
        let mut o = o.borrow_mut();
        let w = o.as_mut().expect("trace not opened");
        serde_json::to_writer(&mut *w, &ev).unwrap();
        w.write_all(b"\n").unwrap();
    });
}

pub fn close_trace() {
    OUT.with(|o| {
        if let Some(mut w) = o.borrow_mut().take() {
            w.flush().unwrap();
        }
    });
}

/// Run `f`, turning a panic into its message (a panic of code under test is an observation).
pub fn catch<R>(f: impl FnOnce() -> R + std::panic::UnwindSafe) -> Result<R, String> {
    std::panic::catch_unwind(f).map_err(|e| {
        if let Some(s) = e.downcast_ref::<&str>() {
            s.to_string()
        } else if let Some(s) = e.downcast_ref::<String>() {
            s.clone()
        } else {
            "<non-string panic>".to_string()
        }
    })
}

/// Silence the default panic hook (panics are caught and recorded).
pub fn quiet_panics() {
    if std::env::var("VERIF_SHOW_PANICS").is_ok() {
        return;
    }
    std::panic::set_hook(Box::new(|_| {}));
}

/// Read an ndjson file into values.
pub fn read_ndjson(path: &str) -> Vec<Value> {
    let text = std::fs::read_to_string(path).unwrap_or_else(|e| panic!("cannot read {path}: {e}"));
    text.lines()
        .filter(|l| !l.trim().is_empty())
        .map(|l| serde_json::from_str(l).unwrap_or_else(|e| panic!("bad json line in {path}: {e}")))
        .collect()
}

#[cfg(test)]
mod tests {
    use super::*;

    // The tagger is in the trusted base: check it against serde_json on round trips.
    fn untag(v: &Value) -> Value {
        match v["t"].as_str().unwrap() {
            "z" => Value::Null,
            "b" => Value::Bool(v["v"] == "true"),
            "n" => serde_json::from_str(v["v"].as_str().unwrap()).unwrap(),
            "s" => Value::String(v["v"].as_str().unwrap().to_string()),
            "a" => Value::Array(v["e"].as_array().unwrap().iter().map(untag).collect()),
            "o" => Value::Object(
                v["f"].as_array().unwrap().iter().map(|m| (m["k"].as_str().unwrap().to_string(), untag(&m["v"]))).collect(),
            ),
            _ => panic!(),
        }
    }

    #[test]
    fn tagger_round_trips() {
        let docs = [
            r#"{"a":1,"b":[true,false,null,"x\"y\\z\u00e9"],"c":{"d":{},"e":[]},"f":-1.5e3,"g":"18446744073709551616"}"#,
            r#"[]"#,
            r#"{}"#,
            r#""plain""#,
            r#"340282366920938463463374607431768211455"#,
            r#"{"k":{"k":{"k":[[[1]]]}}}"#,
            " { \"a\" : [ 1 , 2 ] } ",
        ];
        for d in docs {
            let exact = parse_exact(d).unwrap();
            let back = untag(&tag(&exact));
            let reference: Value = serde_json::from_str(d).unwrap();
            assert_eq!(back, reference, "doc {d}");
        }
    }

    #[test]
    fn duplicates_and_order_kept() {
        let x = parse_exact(r#"{"b":1,"a":2,"b":3}"#).unwrap();
        let t = tag(&x);
        let keys: Vec<_> = t["f"].as_array().unwrap().iter().map(|m| m["k"].as_str().unwrap().to_string()).collect();
        assert_eq!(keys, ["b", "a", "b"]);
    }

    #[test]
    fn rejects_non_json() {
        for bad in ["", "{", "{\"a\":}", "[1,]", "nul", "{\"a\":1}x", "01", "\"\\x\""] {
            assert!(parse_exact(bad).is_err(), "{bad}");
        }
    }
}
