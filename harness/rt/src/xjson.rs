//! Exact JSON reader (RFC 8259): keeps member order, duplicate keys and the spelling of numbers.

#[derive(Debug, Clone, PartialEq)]
pub enum XJ {
    Null,
    Bool(bool),
    Num(String),
    Str(String),
    Arr(Vec<XJ>),
    Obj(Vec<(String, XJ)>),
}

pub fn parse(text: &str) -> Result<XJ, String> {
    let mut p = P { s: text.as_bytes(), i: 0 };
    p.ws();
    let v = p.value(0)?;
    p.ws();
    if p.i != p.s.len() {
        return Err(format!("trailing characters at {}", p.i));
    }
    Ok(v)
}

struct P<'a> {
    s: &'a [u8],
    i: usize,
}

impl P<'_> {
    fn ws(&mut self) {
        while self.i < self.s.len() && matches!(self.s[self.i], b' ' | b'\t' | b'\n' | b'\r') {
            self.i += 1;
        }
    }
    fn peek(&self) -> Option<u8> {
        self.s.get(self.i).copied()
    }
    fn eat(&mut self, lit: &[u8]) -> bool {
        if self.s[self.i..].starts_with(lit) {
            self.i += lit.len();
            true
        } else {
            false
        }
    }
    fn value(&mut self, depth: usize) -> Result<XJ, String> {
        if depth > 200 {
            return Err("too deep".into());
        }
        match self.peek() {
            None => Err("unexpected end".into()),
            Some(b'n') => self.eat(b"null").then_some(XJ::Null).ok_or_else(|| "bad literal".into()),
            Some(b't') => self.eat(b"true").then_some(XJ::Bool(true)).ok_or_else(|| "bad literal".into()),
            Some(b'f') => self.eat(b"false").then_some(XJ::Bool(false)).ok_or_else(|| "bad literal".into()),
            Some(b'"') => self.string().map(XJ::Str),
            Some(b'[') => {
                self.i += 1;
                let mut out = vec![];
                self.ws();
                if self.peek() == Some(b']') {
                    self.i += 1;
                    return Ok(XJ::Arr(out));
                }
                loop {
                    self.ws();
                    out.push(self.value(depth + 1)?);
                    self.ws();
                    match self.peek() {
                        Some(b',') => self.i += 1,
                        Some(b']') => {
                            self.i += 1;
                            return Ok(XJ::Arr(out));
                        }
                        _ => return Err(format!("expected , or ] at {}", self.i)),
                    }
                }
            }
            Some(b'{') => {
                self.i += 1;
                let mut out = vec![];
                self.ws();
                if self.peek() == Some(b'}') {
                    self.i += 1;
                    return Ok(XJ::Obj(out));
                }
                loop {
                    self.ws();
                    if self.peek() != Some(b'"') {
                        return Err(format!("expected key at {}", self.i));
                    }
                    let k = self.string()?;
                    self.ws();
                    if self.peek() != Some(b':') {
                        return Err(format!("expected : at {}", self.i));
                    }
                    self.i += 1;
                    self.ws();
                    let v = self.value(depth + 1)?;
                    out.push((k, v));
                    self.ws();
                    match self.peek() {
                        Some(b',') => self.i += 1,
                        Some(b'}') => {
                            self.i += 1;
                            return Ok(XJ::Obj(out));
                        }
                        _ => return Err(format!("expected , or }} at {}", self.i)),
                    }
                }
            }
            Some(c) if c == b'-' || c.is_ascii_digit() => self.number(),
            Some(c) => Err(format!("unexpected byte {c} at {}", self.i)),
        }
    }
    fn number(&mut self) -> Result<XJ, String> {
        let start = self.i;
        if self.peek() == Some(b'-') {
            self.i += 1;
        }
        match self.peek() {
            Some(b'0') => self.i += 1,
            Some(c) if c.is_ascii_digit() => {
                while matches!(self.peek(), Some(c) if c.is_ascii_digit()) {
                    self.i += 1;
                }
            }
            _ => return Err("bad number".into()),
        }
        if self.peek() == Some(b'.') {
            self.i += 1;
            if !matches!(self.peek(), Some(c) if c.is_ascii_digit()) {
                return Err("bad fraction".into());
            }
            while matches!(self.peek(), Some(c) if c.is_ascii_digit()) {
                self.i += 1;
            }
        }
        if matches!(self.peek(), Some(b'e' | b'E')) {
            self.i += 1;
            if matches!(self.peek(), Some(b'+' | b'-')) {
                self.i += 1;
            }
            if !matches!(self.peek(), Some(c) if c.is_ascii_digit()) {
                return Err("bad exponent".into());
            }
            while matches!(self.peek(), Some(c) if c.is_ascii_digit()) {
                self.i += 1;
            }
        }
        Ok(XJ::Num(String::from_utf8(self.s[start..self.i].to_vec()).unwrap()))
    }
    fn hex4(&mut self) -> Result<u32, String> {
        if self.i + 4 > self.s.len() {
            return Err("short \\u".into());
        }
        let h = std::str::from_utf8(&self.s[self.i..self.i + 4]).map_err(|_| "bad \\u")?;
        self.i += 4;
        u32::from_str_radix(h, 16).map_err(|_| "bad \\u".to_string())
    }
    fn string(&mut self) -> Result<String, String> {
        self.i += 1; // opening quote
        let mut out: Vec<u8> = vec![];
        loop {
            match self.peek() {
                None => return Err("unterminated string".into()),
                Some(b'"') => {
                    self.i += 1;
                    return String::from_utf8(out).map_err(|_| "invalid utf8".to_string());
                }
                Some(b'\\') => {
                    self.i += 1;
                    let c = self.peek().ok_or("bad escape")?;
                    self.i += 1;
                    match c {
                        b'"' => out.push(b'"'),
                        b'\\' => out.push(b'\\'),
                        b'/' => out.push(b'/'),
                        b'b' => out.push(8),
                        b'f' => out.push(12),
                        b'n' => out.push(b'\n'),
                        b'r' => out.push(b'\r'),
                        b't' => out.push(b'\t'),
                        b'u' => {
                            let mut cp = self.hex4()?;
                            if (0xD800..0xDC00).contains(&cp) {
                                if !self.eat(b"\\u") {
                                    return Err("lone surrogate".into());
                                }
                                let lo = self.hex4()?;
                                if !(0xDC00..0xE000).contains(&lo) {
                                    return Err("bad surrogate".into());
                                }
                                cp = 0x10000 + ((cp - 0xD800) << 10) + (lo - 0xDC00);
                            }
                            let ch = char::from_u32(cp).ok_or("bad code point")?;
                            let mut buf = [0u8; 4];
                            out.extend_from_slice(ch.encode_utf8(&mut buf).as_bytes());
                        }
                        _ => return Err("bad escape".into()),
                    }
                }
                Some(c) if c < 0x20 => return Err("control character in string".into()),
                Some(c) => {
                    out.push(c);
                    self.i += 1;
                }
            }
        }
    }
}
