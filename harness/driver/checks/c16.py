"""C16 -- query response metadata names each query's real response type."""
from . import routing

NOTE = ("query handlers of the corpus declare one of two response types, a quarter of them through `resp=` with an aliased result type; "
        "response_schemas() of every part's QueryMsg and of the contract-level message compared by TLC with the specification's table "
        "(wire name -> declared type; union over parts; no other name), the any-of arity of the contract-level schema with the number of parts; "
        "the value a query returns is checked against the declared type's encoding on every query flight")


def run(prop, tier, seed, replay):
    return routing.run_property(prop, tier, seed, NOTE)
