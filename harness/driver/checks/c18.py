"""C18 -- programs violating the documented constraints are rejected with a diagnostic."""
import time

from .. import common
from ..common import read_ndjson
from . import replies, static


NOTE = ("one rule-breaking edit per documented rule on valid hosts (MC_Static family `rule`) and every reply table of <= MaxM methods "
        "(MC_Reply family `tables`, valid or not) expanded in-process by the real macros; clean/dirty verdict judged by TLC against "
        "Static/Reply!ValidTable; the rule family is also compiled by rustc with the real macros (one crate, one module per item): every "
        "rule-breaking item must fail with a diagnostic of the framework whose primary span lies in the offending method (or anywhere in the "
        "item for item-level rules), every valid host must compile")


def run(prop, tier, seed, replay):
    t0 = time.time()
    rep = common.Report(prop)
    p = static.pipeline(prop, tier, seed, ["rule"])
    diags = static.rules_compile(p)
    v = static.validate(prop, p, rep)
    m, progs_path, tables_path = replies.model(tier)
    tv, ntab = replies.tables_inproc(prop, {"tables_path": tables_path}, rep)
    rc = rep.finish()
    evs = read_ndjson(p["trace"])
    cov = {"states": p["model"]["distinct"] + m["distinct"], "transitions": p["model"]["generated"] + m["generated"],
           "traces_validated_against_impl": len(evs) + ntab,
           "rule_breaking_items": len([i for i in p["items"] if i["expect"] == "dirty"]), "valid_hosts": len([i for i in p["items"] if i["expect"] == "clean"]),
           "reply_tables": ntab, "items_compiled_by_rustc": len(diags),
           "diagnostics_seen": sum(len(d["errors"]) for d in diags),
           "samples": [{"rule": i["rule"], "source": __import__("gen.static", fromlist=["render"]).render(i)} for i in p["items"][:2]],
           "exhaustive": True, "explanation": NOTE}
    common.write_evidence(prop, tier, seed, cov, time.time() - t0, len(rep.violations))
    return rc
