"""C15 -- static group (see checks/static.py, spec/Static.tla, spec/Trace_Static.tla)."""
from . import static

NOTE = {
    "C06": "all 2^6 override subsets x migrate x reply x replies-feature x generic (1024 items) expanded by the real entry_points macro "
           "in-process; the set of emitted functions and the token hash of each (twin comparison) judged by TLC",
    "C13": "attribute placements on item/handler/helper/handler-parameter/helper-parameter for all three macros, plus every annotated item "
           "of sylvia/tests, sylvia/examples and examples/ ; re-emitted item compared with the input skeleton; determinism within and across processes",
    "C15": "all assignments of argument/response type shapes over the type parameters to instantiate/exec/query handlers; parameter lists and "
           "bounds of every generated message type judged by TLC",
    "C17": "all ordered pairs of marker-attribute sites (type of a kind, handler variant, handler argument) for contracts and interfaces; "
           "occurrences of each marker in the generated message types judged by TLC",
}


def run(prop, tier, seed, replay):
    return static.run_property(prop, tier, seed, NOTE[prop], with_real=False, second_run=False)
