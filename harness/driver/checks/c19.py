"""C19 -- generated code is hygienic about crate name and user type-parameter names."""
import json
import os
import shutil
import sys
import time

from .. import common
from ..common import CACHE, HARNESS, REPO, TARGET, ToolError, run, tlc_model, tlc_trace, read_ndjson, write_ndjson
from . import routing, replies

sys.path.insert(0, HARNESS)
from gen import hygiene as gen_hyg  # noqa: E402
from gen import routing as gen_routing  # noqa: E402
from gen import replies as gen_replies  # noqa: E402

KRATE = "svx2_Renamed"      # a digit next to a letter and an upper-case letter: the alias must be used exactly as the manifest spells it
NOTE = ("(1) a generic contract and an interface with an associated type built with every single letter and a set of plain CamelCase words as "
        "the parameter name, run and required to behave the same; (2) routing programs (all kinds, interfaces, executor/querier/instantiate "
        "helpers, multitest impl) and reply programs (every routing arm incl. the pass-through ones, builders) rebuilt with the framework imported "
        "only under another name and validated by the unchanged, name-free trace specifications: they must build and fail exactly the clauses "
        "they fail under the ordinary name")


def failing(module, cfg, trace, progs_path):
    v = tlc_trace(module, cfg, trace, env={"VERIF_PROGS": progs_path, "VERIF_FOCUS": "ALL"}, timeout=3000)
    evs = read_ndjson(trace)
    out = set()
    for rej in v["rejections"]:
        i = rej["index"] - 1
        while i >= 0 and evs[i].get("ev") not in ("Deliver", "Reply", "Reset", "SubMsgBuilt", "Build", "RemoteMsg"):
            i -= 1
        c = evs[i] if i >= 0 else {}
        pid = rej["event"].get("prog") or c.get("prog")
        for a, b in (rej["failed"] or [("?", "event_not_explained")]):
            out.add((pid, b, c.get("ep"), c.get("shape"), c.get("key"), c.get("body"), c.get("h"), c.get("result"), c.get("class"), c.get("via")))
    return out, len(evs)


def build_and_run(gdir, gen, progs, rt_rows, prefix, shards, runner_arg, rep, what):
    """Generate with the renamed dependency, build (attributing failures), run the survivors; returns (trace path, failed)."""
    failed = {}
    for attempt in range(3):
        if gen is gen_routing:
            keep = [p for p in progs if p["id"] not in failed]
            bins, _ = gen.generate(keep, gdir, HARNESS, REPO, shards, prefix, common.write_if_changed, krate=KRATE)
            spans = gen.generate.spans
        else:
            bins, spans = gen.generate(progs, gdir, HARNESS, REPO, shards, prefix, common.write_if_changed, exclude=set(failed), krate=KRATE)
        keepdirs = {b for b, _ in bins}
        for d in os.listdir(gdir):
            if d.startswith(prefix) and d not in keepdirs:
                shutil.rmtree(os.path.join(gdir, d), ignore_errors=True)
        f2, loose = common.corpus_build(gdir, spans)
        if loose:
            raise ToolError("%s (renamed dependency): compile errors not attributable to a program:\n%s" % (what, loose[-3000:]))
        if not f2:
            break
        failed.update(f2)
    else:
        raise ToolError("%s does not build under the renamed dependency even after excluding failing programs" % what)
    for pid, msg in failed.items():
        first = msg.strip().splitlines()[0] if msg.strip() else ""
        rep.violation("renamed-dependency-build|%s|%s" % (what, first[:80]),
                      "C19: %s program %s does not build when the framework is imported as `%s`: %s" % (what, pid, KRATE, first),
                      {"cargo.txt": msg})
    trace = os.path.join(gdir, "trace.ndjson")
    with open(trace, "w") as tf:
        for b, ids in bins:
            part = os.path.join(gdir, "trace_%s.ndjson" % b)
            rc, out, _ = common.run([os.path.join(TARGET, "debug", b), runner_arg, part], timeout=900)
            if rc != 0:
                raise ToolError("%s binary %s failed:\n%s" % (what, b, out[-2000:]))
            with open(part) as pf:
                shutil.copyfileobj(pf, tf)
            os.unlink(part)
    return trace, failed


def run(prop, tier, seed, replay):  # noqa: F811
    t0 = time.time()
    rep = common.Report(prop)
    tdir = os.path.join(CACHE, "tlc")
    os.makedirs(tdir, exist_ok=True)
    # (1) type-parameter names
    cfgs_path = os.path.join(tdir, "hygiene_cfgs.ndjson")
    if os.path.exists(cfgs_path):
        os.unlink(cfgs_path)
    m = tlc_model("Hygiene", "Hygiene.cfg", env={"VERIF_OUT": cfgs_path}, workers=2, timeout=600, expect=['"CONFIGS"'], coverage=True)
    cfgs = read_ndjson(cfgs_path)
    gdir = os.path.join(CACHE, "gen", "hygiene")
    failed = {}
    for attempt in range(3):
        bins, spans = gen_hyg.generate(cfgs, gdir, HARNESS, REPO, 8, common.write_if_changed, exclude=set(failed))
        f2, loose = common.corpus_build(gdir, spans)
        if loose:
            raise ToolError("hygiene corpus: unattributable compile errors:\n" + loose[-3000:])
        if not f2:
            break
        failed.update(f2)
    htrace = os.path.join(gdir, "trace.ndjson")
    with open(htrace, "w") as tf:
        for c in cfgs:
            if gen_hyg.modname(c) in failed:
                tf.write(json.dumps({"ev": "Hygiene", "param": c["param"], "shape": c["shape"], "built": False, "ran": False,
                                     "handler": "", "query": "", "msg": failed[gen_hyg.modname(c)][:400]}) + "\n")
        for b, ids in bins:
            part = os.path.join(gdir, "trace_%s.ndjson" % b)
            rc, out, _ = common.run([os.path.join(TARGET, "debug", b), part], timeout=600)
            if rc != 0:
                raise ToolError("hygiene binary failed:\n" + out[-2000:])
            with open(part) as pf:
                shutil.copyfileobj(pf, tf)
            os.unlink(part)
    hv = tlc_trace("Trace_Hygiene", "Trace_Hygiene.cfg", htrace, env={"VERIF_FOCUS": prop}, timeout=900, resync="next")
    for rej in hv["rejections"]:
        e = rej["event"]
        mine = [b for a, b in rej["failed"] if a == prop] or ["event_not_explained_by_the_specification"]
        rep.violation("%s|%s|param=%s" % (mine[0], e.get("shape"), e.get("param")),
                      "C19: clause `%s` fails for %s with type parameter named `%s`: %s" % (
                          mine[0], e.get("shape"), e.get("param"), (e.get("msg") or "").strip().splitlines()[0] if e.get("msg") else ""),
                      {"event.json": e})
    # (2) renamed dependency: routing and reply corpora
    rp = routing.pipeline(tier, seed)
    base_r, _ = failing("Trace_Routing", "Trace_Routing.cfg", rp["trace"], rp["progs_path"])
    sel = [p for p in rp["progs"] if p["id"] in ("S1", "S2", "R1", "R2", "G1", "A1", "W1", "O6")]
    rrows = [r for r in rp["rows"] if r["id"] in {p["id"] for p in sel}]
    rg = os.path.join(CACHE, "gen", "hyg-routing-" + tier)
    os.makedirs(rg, exist_ok=True)
    rt_path = os.path.join(rg, "progs_rt.ndjson")
    write_ndjson(rt_path, rrows)
    rtrace, rfailed = build_and_run(rg, gen_routing, sel, rrows, "xshard", 6, rt_path, rep, "routing")
    ren_r, nre = failing("Trace_Routing", "Trace_Routing.cfg", rtrace, rp["progs_path"])
    ids = {p["id"] for p in sel} - set(rfailed)
    d = {x for x in base_r if x[0] in ids} ^ ren_r
    if d:
        ex = sorted(map(str, d))[:5]
        rep.violation("renamed-dependency-behaviour|routing", "C19: routing programs behave differently under the renamed dependency: %s" % ex,
                      {"difference.json": ex})
    qp = replies.pipeline(tier, seed)
    base_q, _ = failing("Trace_Reply", "Trace_Reply.cfg", qp["trace"], qp["progs_path"])
    qg = os.path.join(CACHE, "gen", "hyg-reply-" + tier)
    os.makedirs(qg, exist_ok=True)
    qsel = qp["progs"] if tier == "thorough" else qp["progs"][::3] + [p for p in qp["progs"] if p["id"].startswith("D")]
    qsel = list({p["id"]: p for p in qsel}.values())
    qtrace, qfailed = build_and_run(qg, gen_replies, qsel, None, "yshard", 6, qp["progs_path"], rep, "reply")
    ren_q, nqe = failing("Trace_Reply", "Trace_Reply.cfg", qtrace, qp["progs_path"])
    qids = {p["id"] for p in qsel} - set(qfailed)
    d = {x for x in base_q if x[0] in qids} ^ ren_q
    if d:
        ex = sorted(map(str, d))[:5]
        rep.violation("renamed-dependency-behaviour|reply", "C19: reply programs behave differently under the renamed dependency: %s" % ex,
                      {"difference.json": ex})
    rc = rep.finish()
    cov = {"states": m["distinct"] + rp["model"]["distinct"] + qp["model"]["distinct"],
           "transitions": m["generated"] + rp["model"]["generated"] + qp["model"]["generated"],
           "traces_validated_against_impl": len(cfgs) + len(sel) + len(qsel),
           "parameter_name_configurations": len(cfgs), "programs_under_renamed_dependency": len(sel) + len(qsel),
           "events_under_renamed_dependency": nre + nqe,
           "samples": [cfgs[0], {"renamed_as": KRATE, "routing_programs": [p["id"] for p in sel], "reply_programs": [p["id"] for p in qsel][:8]}],
           "exhaustive": False, "explanation": NOTE}
    common.write_evidence(prop, tier, seed, cov, time.time() - t0, len(rep.violations))
    return rc
