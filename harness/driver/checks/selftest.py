"""bin/check selftest -- demonstrates that the trace specifications are bound to what the implementation recorded
(DESIGN.md 4.4): for every trace group a recorded field is corrupted, or an event removed, and TLC has to object
*at that event* with the clause that speaks about the field.  Not a property check: it exits 0 when every corruption
is noticed, 2 otherwise, and writes /verif/selftest_report.json."""
import copy
import json
import os
import time

from .. import common
from ..common import CACHE, VERIF, harness_bin, tlc_model, tlc_trace, read_ndjson, log, ToolError
from . import routing, replies, static


def segment(events, idx, start_pred):
    """The run the event belongs to: from the last event satisfying start_pred before idx to the next one after it."""
    a = idx
    while a > 0 and not start_pred(events[a]):
        a -= 1
    b = idx + 1
    while b < len(events) and not start_pred(events[b]):
        b += 1
    return a, b


def judge(module, cfg, env, events, resync):
    path = os.path.join(CACHE, "tlc", "selftest_trace.ndjson")
    with open(path, "w") as f:
        for e in events:
            f.write(json.dumps(e) + "\n")
    e = dict(env)
    e["VERIF_FOCUS"] = "ALL"
    v = tlc_trace(module, cfg, path, env=e, timeout=900, resync=resync)
    return v["rejections"]


class Case:
    def __init__(self, group, name, module, cfg, env, events, start_pred, resync="next"):
        self.group, self.name, self.module, self.cfg, self.env = group, name, module, cfg, env
        self.events, self.start_pred, self.resync = events, start_pred, resync


def run_case(case, pick, mutate, expect_clause, drop=False):
    """pick: event -> bool; mutate: event -> None (in place).  Returns a report row."""
    evs = case.events
    idx = next((i for i, e in enumerate(evs) if pick(e)), None)
    if idx is None:
        return {"group": case.group, "case": case.name, "ok": False, "why": "no event to corrupt"}
    a, b = segment(evs, idx, case.start_pred)
    seg = [copy.deepcopy(e) for e in evs[a:b]]
    # indices used by the static trace refer to the whole trace: re-base them on the segment
    for e in seg:
        if "prev" in e:
            e["prev"] = 0
    base = judge(case.module, case.cfg, case.env, seg, case.resync)
    base_at = {r["index"] for r in base}
    k = idx - a
    if drop:
        del seg[k]
    else:
        mutate(seg[k])
    rej = judge(case.module, case.cfg, case.env, seg, case.resync)
    new = [r for r in rej if r["index"] not in base_at or r["index"] in (k + 1, k + 2)]
    at = [r for r in rej if r["index"] in ((k + 1,) if not drop else (k + 1, k + 2))]
    clauses = sorted({c for r in at for _, c in r["failed"]}) or (["event_not_explained_by_the_specification"] if at else [])
    ok = bool(at) and (expect_clause is None or any(expect_clause in c for c in clauses))
    return {"group": case.group, "case": case.name, "event": evs[idx].get("ev"), "position_in_segment": k + 1,
            "segment_events": len(seg), "rejected_at_that_event": bool(at), "clauses": clauses[:4],
            "expected_clause": expect_clause, "accepted_before_corruption": not any(r["index"] == k + 1 for r in base), "ok": ok}


def run(tier, seed):
    t0 = time.time()
    rows = []
    is_reset = lambda e: e.get("ev") == "Reset"  # noqa: E731

    # ---- routing group (C01-C06, C10, C16, C17)
    p = routing.pipeline("quick", seed)
    evs = read_ndjson(p["trace"])
    env = {"VERIF_PROGS": p["progs_path"]}
    R = lambda name: Case("routing", name, "Trace_Routing", "Trace_Routing.cfg", env, evs, is_reset, "next")  # noqa: E731
    first_ok_handler = lambda e: e.get("ev") == "Handler" and e.get("prog") == "S1"  # noqa: E731

    def set_(k, v):
        def f(e):
            e[k] = v
        return f

    rows.append(run_case(R("handler name"), first_ok_handler, set_("name", "zz_other"), "the_handler_is_the_one_the_message_was_generated_from"))
    rows.append(run_case(R("handler kind"), first_ok_handler, set_("kind", "sudo" if True else ""), "handler_kind_is_the_entry_points_kind"))

    def bump_arg(e):
        e["args"][0]["json"] = {"t": "n", "v": "123456"}
    rows.append(run_case(R("handler argument value"), lambda e: first_ok_handler(e) and e.get("args"), bump_arg,
                         "every_field_reaches_the_parameter_of_the_same_name"))
    rows.append(run_case(R("wrapper verdict"), lambda e: e.get("ev") == "WrapperDecode" and e.get("verdict") == "ok" and e.get("prog") == "S1",
                         set_("verdict", "err"), "accepts_iff_exactly_one_part_accepts"))
    rows.append(run_case(R("published list"), lambda e: e.get("ev") == "Lists" and len(e.get("listed", [])) >= 2,
                         lambda e: e["listed"].reverse(), "published_list_is_sorted_set_of_serialised_names"))
    rows.append(run_case(R("encoded message"), lambda e: e.get("ev") == "Encode" and e.get("args"),
                         lambda e: e["json"]["f"][0].__setitem__("k", "zz") if e["json"].get("f") else None, "json_is_name_keyed_object"))
    rows.append(run_case(R("handler event removed"), first_ok_handler, None, "a_successful_decode_runs_a_handler_before_returning", drop=True))
    rows.append(run_case(R("remote message funds"), lambda e: e.get("ev") == "RemoteMsg" and e.get("helper") == "exec" and e.get("funds_set"),
                         set_("funds", []), "message_carries_the_funds_set_on_the_builder"))
    rows.append(run_case(R("builder label"), lambda e: e.get("ev") == "BuilderBuild" and e.get("kind") == "instantiate" and e.get("label"),
                         set_("label", "zz"), "built_message_carries_the_label_set_last_or_none"))
    rows.append(run_case(R("builder setter removed"), lambda e: e.get("ev") == "BuilderSet" and e.get("f") == "funds" and e.get("v") != "0", None,
                         "built_message_carries_the_funds_set_last", drop=True))

    def drop_row(e):
        e["rows"] = e["rows"][1:]
    rows.append(run_case(R("query response table"), lambda e: e.get("ev") == "Schemas" and e.get("part") == "contract" and len(e.get("rows", [])) >= 2,
                         drop_row, "contract_table_is_the_union_of_its_parts_tables"))

    def other_members(e):
        e["anyof_same"] = False
    rows.append(run_case(R("members of the contract-level any-of"), lambda e: e.get("ev") == "Schemas" and e.get("part") == "contract" and e.get("anyof_same") is True,
                         other_members, "contract_schema_is_the_any_of_of_its_parts"))

    # ---- multitest group (C12)
    p = routing.pipeline("quick", seed, mt=True)
    env = {"VERIF_PROGS": p["progs_path"]}
    mevs = read_ndjson(p["mt_trace"])
    M = Case("multitest", "", "Trace_Multitest", "Trace_Multitest.cfg", env, mevs, lambda e: e.get("step") == 0, "next")

    def bump_count(e):
        e["proxy"]["view"]["count"] = "99"
    M.name = "proxy chain state"
    rows.append(run_case(M, lambda e: e.get("step", 0) >= 1 and e["op"]["op"] == "instantiate" and e["proxy"]["res"].get("ok"), bump_count,
                         "proxy_call_and_raw_json_leave_the_two_chains_in_the_same_state"))

    def handler_skipped(e):
        e["ran"]["proxy"] = 0
    M2 = Case("multitest", "handler invocations of a repeated query", "Trace_Multitest", "Trace_Multitest.cfg", env, mevs, lambda e: e.get("step") == 0, "next")
    rows.append(run_case(M2, lambda e: e.get("step", 0) >= 2 and e["op"]["op"] == "query" and e.get("ran", {}).get("proxy") == 1, handler_skipped,
                         "proxy_call_runs_the_handler_as_often_as_the_raw_json"))

    # ---- reply group (C07-C09, C14)
    rp = replies.pipeline("quick", seed)
    revs = read_ndjson(rp["trace"])
    renv = {"VERIF_PROGS": rp["progs_path"]}
    Q = lambda name: Case("reply", name, "Trace_Reply", "Trace_Reply.cfg", renv, revs, is_reset, "next")  # noqa: E731
    rows.append(run_case(Q("reply handler name"), lambda e: e.get("ev") == "ReplyHandler", set_("name", "zz_other"),
                         "the_method_declared_for_this_handler_and_outcome_runs"))

    def bump_id(e):
        e["id"] = e["id"] + 1 if isinstance(e["id"], int) else str(int(e["id"]) + 1)
    rows.append(run_case(Q("sub-message id"), lambda e: e.get("ev") == "SubMsgBuilt" and e.get("verdict") == "ok", bump_id,
                         "builder_stamps_the_handlers_id"))
    rows.append(run_case(Q("reply trigger"), lambda e: e.get("ev") == "SubMsgBuilt" and e.get("verdict") == "ok" and e.get("reply_on") == "always",
                         set_("reply_on", "success"), "reply_requested_for_exactly_the_outcomes_that_have_a_method"))
    rows.append(run_case(Q("reply handler event removed"), lambda e: e.get("ev") == "ReplyHandler", None, None, drop=True))

    # ---- chain group (C07-C09 end to end on a chain)
    cevs = read_ndjson(rp["chain_trace"])
    is_init = lambda e: e.get("ev") == "ChainInit"  # noqa: E731
    CH = lambda name: Case("chain", name, "Trace_Chain", "Trace_Chain.cfg", renv, cevs, is_init, "next")  # noqa: E731
    rows.append(run_case(CH("transaction data without a reply"), lambda e: e.get("ev") == "ChainDone" and e.get("verdict") == "ok" and e.get("data") == "fire",
                         set_("data", "zz"), "uncovered_success_goes_on_with_the_callers_own_response"))
    rows.append(run_case(CH("trigger of the built sub-message"), lambda e: e.get("ev") == "ChainBuilt" and e.get("reply_on") == "success",
                         set_("reply_on", "always"), "reply_requested_for_exactly_the_outcomes_that_have_a_method"))

    def cut_payload(e):
        e["payload"] = e["payload"][:-1]
    rows.append(run_case(CH("payload handed to the reply method"), lambda e: e.get("ev") == "ReplyHandler" and e.get("payload"), cut_payload,
                         "payload_parameters_receive_the_values_given_to_the_builder"))

    def bump_view(e):
        e["view"]["count"] += 1
    rows.append(run_case(CH("state after a failed transaction"), lambda e: e.get("ev") == "ChainDone" and e.get("verdict") == "err", bump_view,
                         "a_failed_transaction_leaves_both_contracts_unchanged"))

    def cut_events(e):
        e["ctx"]["events"] = e["ctx"]["events"][:-1]
    rows.append(run_case(CH("events in the reply context"), lambda e: e.get("ev") == "ReplyHandler" and e["ctx"].get("events"), cut_events,
                         "context_carries_gas_and_for_success_events_and_message_responses"))

    def other_data(e):
        e["data"]["f"][0]["v"]["v"] = "2"
    rows.append(run_case(CH("decoded data handed to the reply method"), lambda e: e.get("ev") == "ReplyHandler" and e["data"].get("t") == "o", other_data,
                         "data_parameter_holds_the_documented_decoding"))
    rows.append(run_case(CH("reply handler event removed"), lambda e: e.get("ev") == "ReplyHandler", None, None, drop=True))

    # ---- static group (C06, C13, C15, C17, C18)
    sp = static.pipeline("selftest", "quick", seed, ["ep", "pt", "fw", "gen", "rule"])
    sevs = read_ndjson(sp["trace"])
    senv = {"VERIF_PROGS": sp["items_path"]}
    by_id = {it["id"]: it for it in sp["items"]}
    fam = lambda e: by_id.get(e.get("id"), {}).get("family")  # noqa: E731
    S = lambda name: Case("static", name, "Trace_Static", "Trace_Static.cfg", senv, sevs, lambda e: True, "next")  # noqa: E731

    def drop_ep(e):
        e["entry_points"] = e["entry_points"][1:]
    rows.append(run_case(S("entry point set"), lambda e: fam(e) == "ep" and len(e.get("entry_points", [])) >= 2, drop_ep,
                         "entry_points_are_defaults_plus_declared_minus_overridden"))

    def has_inline(e):
        return any(a["p"] == "inline" for m in e.get("item", {}).get("members", []) for a in m.get("attrs", []))

    def drop_member_attr(e):      # a user attribute of a method is lost in the re-emitted item
        for m in e["item"]["members"]:
            m["attrs"] = [a for a in m["attrs"] if a["p"] != "inline"]
    rows.append(run_case(S("re-emitted method attribute"), lambda e: fam(e) == "pt" and e.get("verdict") == "clean" and has_inline(e),
                         drop_member_attr, "re_emit"))

    def add_generic(e):
        for t in e["types"]:
            if t["n"] == "ExecMsg":
                t["generics"] = t["generics"] + ["ZZ"]
    rows.append(run_case(S("message type parameters"), lambda e: fam(e) == "gen" and e.get("verdict") == "clean", add_generic,
                         "message_type_carries_exactly_the_parameters_its_handlers_use"))

    def strip_markers(e):
        def walk(x):
            if isinstance(x, dict):
                if "attrs" in x and isinstance(x["attrs"], list):
                    x["attrs"] = [a for a in x["attrs"] if not (isinstance(a, dict) and "m1" in a.get("t", ""))]
                for v in x.values():
                    walk(v)
            elif isinstance(x, list):
                for v in x:
                    walk(v)
        walk(e["types"])
    rows.append(run_case(S("forwarded marker"), lambda e: fam(e) == "fw" and e.get("verdict") == "clean", strip_markers,
                         "forwarded_attribute_lands_on_exactly_the_designated_item"))
    rows.append(run_case(S("verdict of a rule-breaking item"), lambda e: fam(e) == "rule" and e.get("verdict") == "dirty", set_("verdict", "clean"),
                         "an_item_breaking_a_documented_rule_is_rejected_with_a_diagnostic"))

    # ---- remote handle group (C20)
    tdir = os.path.join(CACHE, "tlc")
    stim = os.path.join(tdir, "remote_stim_quick.ndjson")
    if os.path.exists(stim):
        os.unlink(stim)
    tlc_model("MC_Remote", "MC_Remote_quick.cfg", env={"VERIF_OUT": stim}, workers=4, timeout=900, expect=['"HANDLES"'])
    trace = os.path.join(tdir, "remote_trace_selftest.ndjson")
    rc, out, _ = common.run([harness_bin("verif-remote"), stim, trace, str(seed)], timeout=600)
    if rc != 0:
        raise ToolError("verif-remote failed:\n" + out[-1000:])
    hevs = read_ndjson(trace)
    H = lambda name: Case("remote", name, "Trace_Remote", "Trace_Remote.cfg", {}, hevs[:40] + hevs[-1:], lambda e: False, "next")  # noqa: E731

    def wrong_addr(e):
        e["json"] = {"t": "o", "f": [{"k": "addr", "v": {"t": "s", "v": "zz"}}]}
    rows.append(run_case(H("handle encoding"), lambda e: e.get("ev") == "RemoteEnc" and e.get("aix") == 3, wrong_addr,
                         "encoding_is_the_single_member_addr_holding_the_address_string"))

    def split_defs(e):
        e["refs"][1] = "#/definitions/Remote2"
    rows.append(run_case(H("store schema references"), lambda e: e.get("ev") == "RemoteStore", split_defs,
                         "handles_of_all_kinds_share_one_schema_definition"))

    bad = [r for r in rows if not r["ok"]]
    report = {"when": time.strftime("%Y-%m-%dT%H:%M:%S"), "seed": seed, "cases": rows, "all_corruptions_noticed": not bad,
              "wall_s": round(time.time() - t0, 1),
              "explanation": "each case takes the run (program / history / item) of a recorded trace, checks it as recorded, then corrupts one field "
                             "of one event (or removes the event) and requires TLC to object at that event with the named clause"}
    with open(os.path.join(VERIF, "selftest_report.json"), "w") as f:
        json.dump(report, f, indent=1)
    for r in rows:
        log("selftest %-10s %-36s %s %s" % (r["group"], r["case"], "noticed" if r["ok"] else "NOT NOTICED", r.get("clauses", r.get("why"))))
    return 0 if not bad else 2
