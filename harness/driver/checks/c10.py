"""C10 -- remote helpers (see checks/routing.py, spec/Runtime.tla RemoteSend, spec/Trace_Routing.tla TrRemoteMsg,
spec/Builder.tla and TrBuilderNew/Set/Build)."""
from . import routing
from ..common import tlc_model, ToolError

NOTE = ("RemoteSend (helper builds the message, chain delivers it) model-checked with invariant C10_RemoteRoutesBack; executor and querier "
        "helpers of every exec/query method of the corpus (handle typed by the contract and by dyn Interface, owned and borrowed, funds set "
        "on the builder), the instantiate builder (plain / label+admin+funds / salted) and the admin helpers recorded as RemoteMsg events; "
        "each built body is delivered to the target's real entry point (queries through a recording mock querier) and the flight is validated; "
        "the builders as a state machine (Builder.tla: every setter sequence up to the bound, invariant C10_BuiltFromLastSet), and every such "
        "sequence replayed call by call on the real ExecutorBuilder / InstantiateBuilder of the shared-family programs "
        "(BuilderNew / BuilderSet / BuilderBuild events stepped through the same operators); on the chain corpus the message every caller wraps "
        "for the target contract is built by the target's generated executor helper and every reply method asks the target through its "
        "generated querier helper inside the running transaction")


def run(prop, tier, seed, replay):
    m = tlc_model("MC_Builder", "MC_Builder_%s.cfg" % tier, workers=2, timeout=600, expect=['"BUILDER-RUNS"'], coverage=True)
    if m["never_taken"]:
        raise ToolError("vacuous builder model: %s" % m["never_taken"])
    # the helpers at work inside contracts on a chain (Chain.tla): the caller wraps a message built by the target's generated executor
    # helper, its reply methods ask the target through its generated querier helper inside the running transaction
    from . import replies

    def extra(rep):
        p = replies.pipeline(tier, seed)
        cv = replies.validate_chain(prop, p, rep)
        return {"chain_trace_events_judged": cv["events"]}
    return routing.run_property(prop, tier, seed, NOTE, extra=extra)
