"""C10 -- remote helpers (see checks/routing.py, spec/Runtime.tla RemoteSend, spec/Trace_Routing.tla TrRemoteMsg)."""
from . import routing

NOTE = ("RemoteSend (helper builds the message, chain delivers it) model-checked with invariant C10_RemoteRoutesBack; executor and querier "
        "helpers of every exec/query method of the corpus (handle typed by the contract and by dyn Interface, owned and borrowed, funds set "
        "on the builder), the instantiate builder (plain / label+admin+funds / salted) and the admin helpers recorded as RemoteMsg events; "
        "each built body is delivered to the target's real entry point (queries through a recording mock querier) and the flight is validated")


def run(prop, tier, seed, replay):
    return routing.run_property(prop, tier, seed, NOTE)
