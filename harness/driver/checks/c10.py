"""C10 -- remote helpers (see checks/routing.py, spec/Runtime.tla RemoteSend, spec/Trace_Routing.tla TrRemoteMsg,
spec/Builder.tla and TrBuilderNew/Set/Build)."""
from . import routing
from ..common import tlc_model, ToolError

NOTE = ("RemoteSend (helper builds the message, chain delivers it) model-checked with invariant C10_RemoteRoutesBack; executor and querier "
        "helpers of every exec/query method of the corpus (handle typed by the contract and by dyn Interface, owned and borrowed, funds set "
        "on the builder), the instantiate builder (plain / label+admin+funds / salted) and the admin helpers recorded as RemoteMsg events; "
        "each built body is delivered to the target's real entry point (queries through a recording mock querier) and the flight is validated; "
        "the builders as a state machine (Builder.tla: every setter sequence up to the bound, invariant C10_BuiltFromLastSet), and every such "
        "sequence replayed call by call on the real ExecutorBuilder / InstantiateBuilder of the shared-family programs "
        "(BuilderNew / BuilderSet / BuilderBuild events stepped through the same operators)")


def run(prop, tier, seed, replay):
    m = tlc_model("MC_Builder", "MC_Builder_%s.cfg" % tier, workers=2, timeout=600, expect=['"BUILDER-RUNS"'], coverage=True)
    if m["never_taken"]:
        raise ToolError("vacuous builder model: %s" % m["never_taken"])
    return routing.run_property(prop, tier, seed, NOTE)
