"""C04 -- routing group (see checks/routing.py, spec/Runtime.tla, spec/Trace_Routing.tla)."""
from . import routing

NOTE = {
    "C01": "MC_Routing bounded model + every handler of the compiled corpus encoded with two value tuples; JSON shape, round trip, "
           "parse of the specification's document, and each part's accept set judged by TLC on Encode/WrapperDecode events",
    "C02": "every well-formed document of every part delivered through the generated entry point functions and the multitest "
           "Contract impl; Handler/Return events (which handler, arguments by name, context, outcome, storage) judged by TLC",
    "C03": "every well-formed document of every part plus malformed derivatives (unknown/near-miss names, {}, two keys, duplicate key, "
           "non-objects, missing/ill-typed/extra members, non-object body) decoded by the contract-level message and by each part; "
           "relation judged by TLC on WrapperDecode events",
    "C04": "every well-formed message of every kind delivered to the entry point of every other kind, incl. programs whose kinds share "
           "names and shapes; TLC checks that any handler that runs has the entry point's kind",
}


def run(prop, tier, seed, replay):
    if prop != "C04":
        return routing.run_property(prop, tier, seed, NOTE[prop])

    def replies_too(rep):      # a reply is a message of kind `reply`: it must run a reply handler and no handler of another kind
        from . import replies
        qp = replies.pipeline(tier, seed)
        qv = replies.validate(prop, qp, rep)
        return {"reply_programs_compiled": len(qp["progs"]), "reply_trace_events": qv["events"]}
    return routing.run_property(prop, tier, seed, NOTE[prop] + "; replies delivered to the reply entry point of programs that also have a handler of "
                                "another kind called `reply` (legacy program L3)", extra=replies_too)
