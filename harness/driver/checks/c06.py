"""C06 -- entry points exist exactly for defined, non-overridden kinds and forward calls."""
import time

from .. import common
from ..common import read_ndjson
from . import replies, routing, static

NOTE = ("(a) all 2^6 override subsets x migrate x reply x replies-feature x generic, plus the same overrides declared in the opposite order, expanded by "
        "the real entry_points macro in-process: set of emitted functions and per-function token hashes (an override must not alter another entry "
        "point) judged by TLC; (b) the routing corpus incl. programs O1-O7 with user-supplied entry point functions: every document goes through "
        "the generated entry point functions (context and outcome forwarded) and through the multitest Contract impl (an overridden kind reaches the "
        "user's function, the others the generated code); (c) programs without the replies feature (L1-L4 of the reply corpus; the reply method of L4 "
        "returns the standard error type, the entry point the contract's): every reply, "
        "whatever its id and outcome, is handed whole to the single reply method by the reply entry point and the multitest impl")


def run(prop, tier, seed, replay):
    t0 = time.time()
    rep = common.Report(prop)
    sp = static.pipeline(prop, tier, seed, ["ep"])
    sv = static.validate(prop, sp, rep)
    rp = routing.pipeline(tier, seed)
    rv = routing.validate(prop, rp, rep)
    qp = replies.pipeline(tier, seed)        # the legacy reply entry point (programs L1, L2 of the reply corpus)
    replies.validate(prop, qp, rep)
    rc = rep.finish()
    evs = read_ndjson(sp["trace"])
    cov = {"states": sp["model"]["distinct"] + rp["model"]["distinct"], "transitions": sp["model"]["generated"] + rp["model"]["generated"],
           "traces_validated_against_impl": len(evs) + len(rp["progs"]),
           "configurations_expanded_in_process": len(sp["items"]), "programs_compiled": len(rp["progs"]), "trace_events": rv["events"],
           "samples": [static.slim(evs[0])] + routing.samples(rp, 1)[:1], "exhaustive": True, "explanation": NOTE}
    common.write_evidence(prop, tier, seed, cov, time.time() - t0, len(rep.violations))
    return rc
