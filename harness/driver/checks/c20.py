"""C20 -- a stored remote handle has a stable, type-independent encoding."""
import os
import time

from .. import common
from ..common import CACHE, harness_bin, run, tlc_model, tlc_trace, read_ndjson, ToolError


def run(prop, tier, seed, replay):  # noqa: F811
    t0 = time.time()
    rep = common.Report(prop)
    tdir = os.path.join(CACHE, "tlc")
    os.makedirs(tdir, exist_ok=True)
    stim = os.path.join(tdir, "remote_stim_%s.ndjson" % tier)
    if os.path.exists(stim):
        os.unlink(stim)
    m = tlc_model("MC_Remote", "MC_Remote_%s.cfg" % tier, env={"VERIF_OUT": stim}, workers=4, timeout=900, expect=['"HANDLES"'], coverage=True)
    if m["never_taken"]:
        raise ToolError("vacuous remote-handle model: %s" % m["never_taken"])
    exe = harness_bin("verif-remote")
    trace = os.path.join(tdir, "remote_trace_%s.ndjson" % tier)
    rc, out, _ = common.run([exe, stim, trace, str(seed)], timeout=600)
    if rc != 0:
        raise ToolError("verif-remote failed:\n" + out[-2000:])
    v = tlc_trace("Trace_Remote", "Trace_Remote.cfg", trace, env={"VERIF_FOCUS": prop}, timeout=1800, resync="next")
    for rej in v["rejections"]:
        e = rej["event"]
        mine = [b for a, b in rej["failed"] if a == prop] or ["event_not_explained_by_the_specification"]
        rep.violation("%s|ty=%s|owned=%s|addrclass=%s" % (mine[0], e.get("ty"), e.get("owned"), "pool" if e.get("aix", 9) <= 8 else "random"),
                      "C20: clause `%s` fails for Remote<%s> (owned=%s) to address %r" % (mine[0], e.get("ty"), e.get("owned"), e.get("addr")),
                      {"event.json": e})
    rcx = rep.finish()
    evs = read_ndjson(trace)
    cov = {"states": m["distinct"], "transitions": m["generated"], "traces_validated_against_impl": len(evs),
           "samples": evs[:2] + evs[-1:], "exhaustive": True,
           "explanation": "every (type parameter in {contract, generic contract, dyn Interface, dyn Interface with associated type, ()}, owned/borrowed, "
                          "address) case of the bounded model replayed into the real Remote<T>: encoding, decoding of the prescribed literal, own round "
                          "trip and schema judged by TLC; addresses 1..8 are awkward strings (empty, quotes, backslash, unicode, newline, JSON text), "
                          "the rest seeded random printable strings"}
    common.write_evidence(prop, tier, seed, cov, time.time() - t0, len(rep.violations))
    return rcx
