"""C17 -- static group (see checks/static.py, spec/Static.tla, spec/Trace_Static.tla)."""
from . import static

NOTE = {
    "C06": "all 2^6 override subsets x migrate x reply x replies-feature x generic (1024 items) expanded by the real entry_points macro "
           "in-process; the set of emitted functions and the token hash of each (twin comparison) judged by TLC",
    "C13": "attribute placements on item/handler/helper/handler-parameter/helper-parameter for all three macros, plus every annotated item "
           "of sylvia/tests, sylvia/examples and examples/ ; re-emitted item compared with the input skeleton; determinism within and across processes",
    "C15": "all assignments of argument/response type shapes over the type parameters to instantiate/exec/query handlers; parameter lists and "
           "bounds of every generated message type judged by TLC",
    "C17": "all ordered pairs of marker-attribute sites (type of a kind, handler variant, handler argument) for contracts and interfaces; "
           "occurrences of each marker in the generated message types judged by TLC",
}


C17_EFFECT = ("; (b) effect: program A1 of the compiled routing corpus has handler arguments carrying a forwarded serde(default) (plain, and "
              "wrapped in cfg_attr(all(), ..)) in interface and contract handlers of every kind: documents leaving those arguments out are "
              "delivered through the entry points and the multitest impl, must be accepted, and the handler must be handed the default")


def run(prop, tier, seed, replay):
    if prop != "C17":
        return static.run_property(prop, tier, seed, NOTE[prop], with_real=False, second_run=False)
    import time
    from .. import common
    from ..common import read_ndjson
    from . import routing
    t0 = time.time()
    rep = common.Report(prop)
    sp = static.pipeline(prop, tier, seed, ["fw"])
    static.validate(prop, sp, rep)
    rp = routing.pipeline(tier, seed)
    rv = routing.validate(prop, rp, rep)
    rc = rep.finish()
    evs = read_ndjson(sp["trace"])
    ndrop = sum(1 for x in rp["progs"] for st in x["stim"] if st.get("body") == "dropdefault")
    if ndrop == 0:
        raise common.ToolError("no document leaving out a defaulted argument was generated")
    cov = {"states": sp["model"]["distinct"] + rp["model"]["distinct"], "transitions": sp["model"]["generated"] + rp["model"]["generated"],
           "traces_validated_against_impl": len(evs) + len(rp["progs"]),
           "items_expanded_in_process": len(sp["items"]), "programs_compiled": len(rp["progs"]), "trace_events": rv["events"],
           "documents_leaving_out_defaulted_arguments": ndrop * 2,
           "samples": [static.slim(evs[0])] + routing.samples(rp, 1)[:1], "exhaustive": False, "explanation": NOTE["C17"] + C17_EFFECT}
    common.write_evidence(prop, tier, seed, cov, time.time() - t0, len(rep.violations))
    return rc
