"""C11 -- bridging to chain-custom types preserves the response and the call."""
import os
import time

from .. import common
from ..common import CACHE, harness_bin, tlc_model, tlc_trace, read_ndjson, ToolError


def run(prop, tier, seed, replay):
    t0 = time.time()
    rep = common.Report(prop)
    cov = bridge(prop, tier, seed, rep)
    rcx = rep.finish()
    common.write_evidence(prop, tier, seed, cov, time.time() - t0, len(rep.violations))
    return rcx


def bridge(prop, tier, seed, rep):
    """Model, replay and trace validation of the bridge group under the focus of `prop` (C11; C02 for the dispatch clauses);
    violations go to `rep`; returns the coverage record."""
    tdir = os.path.join(CACHE, "tlc")
    os.makedirs(tdir, exist_ok=True)
    stim = os.path.join(tdir, "bridge_stim_%s.ndjson" % tier)
    if os.path.exists(stim):
        os.unlink(stim)
    m = tlc_model("MC_Bridge", "MC_Bridge_%s.cfg" % tier, env={"VERIF_OUT": stim}, workers=8, timeout=1800, expect=['"RESPONSES"'], coverage=True)
    if m["never_taken"]:
        raise ToolError("vacuous bridge model: %s" % m["never_taken"])
    exe = harness_bin("verif-bridge")
    trace = os.path.join(tdir, "bridge_trace_%s.ndjson" % tier)
    rc, out, _ = common.run([exe, stim, trace], timeout=1200)
    if rc != 0:
        raise ToolError("verif-bridge failed:\n" + out[-2000:])
    v = tlc_trace("Trace_Bridge", "Trace_Bridge.cfg", trace, env={"VERIF_FOCUS": prop}, timeout=3000, resync="next", heap="10g")
    seen = set()
    for rej in sorted(v["rejections"], key=lambda r: r["index"]):
        e = rej["event"]
        mine = [b for a, b in rej["failed"] if a == prop] or ["event_not_explained_by_the_specification"]
        kinds = sorted({mm["kind"] for mm in e.get("desc", {}).get("msgs", [])})
        key = "%s|via=%s|kinds=%s" % (mine[0], "entry_point" if e.get("via") != "direct" else "direct", ",".join(kinds))
        if key in seen:
            continue
        seen.add(key)
        rep.violation(key, prop + ": clause `%s` fails (via %s) for a response with sub-messages %s: verdict=%s %s" % (
            mine[0], e.get("via"), [(mm["kind"], mm["prof"]) for mm in e.get("desc", {}).get("msgs", [])], e.get("verdict"), e.get("err", "")[:120]),
            {"event.json": e})
    n = sum(1 for _ in open(trace))
    evs = []
    with open(trace) as f:
        for i, line in enumerate(f):
            if i in (0, 40, 41):
                evs.append(__import__("json").loads(line))
    cov = {"states": m["distinct"], "transitions": m["generated"], "traces_validated_against_impl": n, "samples": evs, "exhaustive": True,
           "explanation": "every response with <= MaxMsgs sub-messages over {wasm, bank, staking, distribution, stargate, ibc, gov, custom} x profiles of "
                          "(id, gas limit, reply trigger, payload) x attributes x events x data replayed into the real IntoResponse::into_response; every "
                          "third one also returned by an interface handler written for the empty custom types through the execute and sudo entry points "
                          "of a contract with custom message and query types (context seen by the handler compared with the caller's and a native handler's)"}
    return cov
