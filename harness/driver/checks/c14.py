"""C14 -- behaviour does not depend on the order of declarations."""
import time

from .. import common
from ..common import read_ndjson, tlc_trace
from . import replies, routing, static

NOTE = ("order independence of the specification's observable table proved by TLC over all permutations (MC_Reply!LemmaOrderIndependent); "
        "every permutation of every small reply table expanded in-process (acceptance); override attributes in both orders (entry-point set); "
        "declaration-order twins of reply programs (reversed methods; error-before-success with a data parameter) and routing programs "
        "(interfaces listed in the opposite order, methods reversed) compiled and run: both twins must build and fail exactly the same clauses "
        "of the same order-free specification; the overlap check replayed over every tuple of sorted lists in every order, verdict compared "
        "with the order-free rule (two lists share a name)")


def failing(module, cfg, trace, progs_path, sig):
    """{program id: set of (clause, stimulus signature)} under all clauses."""
    v = tlc_trace(module, cfg, trace, env={"VERIF_PROGS": progs_path, "VERIF_FOCUS": "ALL"}, timeout=3000)
    evs = read_ndjson(trace)
    out = {}
    for rej in v["rejections"]:
        i = rej["index"] - 1
        while i >= 0 and evs[i].get("ev") not in ("Deliver", "Reply", "Reset", "SubMsgBuilt", "Build"):
            i -= 1
        ctx = evs[i] if i >= 0 else {}
        pid = rej["event"].get("prog") or ctx.get("prog")
        for a, b in (rej["failed"] or [("?", "event_not_explained")]):
            if a == "C14":
                continue
            out.setdefault(pid, set()).add((b, sig(ctx)))
    # the stimuli every program received (twins are compared on the stimuli both of them received)
    got = {}
    for e in evs:
        if e.get("ev") in ("Deliver", "Reply", "SubMsgBuilt"):
            got.setdefault(e.get("prog"), set()).add(sig(e))
    out["__stimuli__"] = got
    return out, v


def flight_fates(evs):
    """{program: {stimulus signature: (handlers that ran, verdict returned)}} read off the recorded flights."""
    out = {}
    cur = None
    for e in evs:
        t = e.get("ev")
        if t == "Deliver":
            cur = (e.get("prog"), (e.get("ep"), e.get("shape"), e.get("key"), e.get("body"), e.get("via"), e.get("val"), e.get("part"), e.get("method")), [])
        elif t == "Handler" and cur:
            cur[2].append((e.get("part"), e.get("name"), e.get("kind")))
        elif t == "Return" and cur:
            out.setdefault(cur[0], {})[cur[1]] = (tuple(cur[2]), e.get("verdict"))
            cur = None
        elif t in ("Reset", "Panic"):
            cur = None
    return out


def run(prop, tier, seed, replay):
    t0 = time.time()
    rep = common.Report(prop)
    # override attributes in both orders
    sp = static.pipeline(prop, tier, seed, ["ep"])
    sv = static.validate(prop, sp, rep)
    # reply tables: acceptance of every permutation; twins build
    rp = replies.pipeline(tier, seed)
    rv = replies.validate(prop, rp, rep)
    tv, ntab = replies.tables_inproc(prop, rp, rep)
    fr, _ = failing("Trace_Reply", "Trace_Reply.cfg", rp["trace"], rp["progs_path"],
                    lambda c: (c.get("ev"), c.get("h"), c.get("result"), c.get("class"), c.get("via"), c.get("events"), c.get("recv")))
    ids = {p["id"] for p in rp["progs"]}
    pairs = [(i, i + "r") for i in ids if i + "r" in ids] + [("DS" + i[2:], i) for i in ids if i.startswith("DE")]
    npairs = 0
    for a, b in pairs:
        if a in rp["failed"] or b in rp["failed"]:
            continue            # reported by the Build clause
        npairs += 1
        if fr.get(a, set()) != fr.get(b, set()):
            d = sorted(fr.get(a, set()) ^ fr.get(b, set()))[:5]
            rep.violation("reply-twin-differs|%s" % (d[0][0],), "C14: reply programs %s and %s differ only in declaration order but "
                          "behave differently: %s" % (a, b, d), {"difference.json": [list(map(str, x)) for x in d]})
    # routing twins
    rtp = routing.pipeline(tier, seed)
    ff, _ = failing("Trace_Routing", "Trace_Routing.cfg", rtp["trace"], rtp["progs_path"],
                    lambda c: (c.get("ep"), c.get("shape"), c.get("key"), c.get("body"), c.get("via"), c.get("val"), c.get("part"), c.get("method")))
    rids = {p["id"] for p in rtp["progs"]}
    for a in sorted(rids):
        b = a + "p"
        if b in rids:
            npairs += 1
            both = ff["__stimuli__"].get(a, set()) & ff["__stimuli__"].get(b, set())
            fa = {x for x in ff.get(a, set()) if x[1] in both or x[1][0] is None}
            fb = {x for x in ff.get(b, set()) if x[1] in both or x[1][0] is None}
            if fa != fb:
                d = sorted(fa ^ fb, key=str)[:5]
                rep.violation("routing-twin-differs|%s" % (d[0][0],), "C14: routing programs %s and %s differ only in declaration order "
                              "but behave differently: %s" % (a, b, d), {"difference.json": [list(map(str, x)) for x in d]})
    # the same document has the same fate in both twins: which handlers run, and what the caller gets
    fates = flight_fates(read_ndjson(rtp["trace"]))
    for a in sorted(rids):
        b = a + "p"
        if b in rids:
            fa, fb = fates.get(a, {}), fates.get(b, {})
            diff = sorted((k for k in set(fa) & set(fb) if fa[k] != fb[k]), key=str)
            if diff:
                k0 = diff[0]
                rep.violation("routing-twin-fate-differs|%s" % ("alias-program" if a.startswith("AL") else "program"),
                              "C14: routing programs %s and %s differ only in declaration order, yet the document (ep, shape, key, body, via, val, part, "
                              "method) = %s runs %s / returns %s in one and runs %s / returns %s in the other" % (
                                  a, b, k0, fa[k0][0], fa[k0][1], fb[k0][0], fb[k0][1]),
                              {"difference.json": [[str(k), str(fa[k]), str(fb[k])] for k in diff[:10]]})
    # the overlap check over every tuple of lists in every order (the parts of a contract in every order of declaration)
    from . import merge
    mp = merge.piece(rep, "quick", seed)
    rc = rep.finish()
    cov = {"states": sp["model"]["distinct"] + rp["model"]["distinct"] + rtp["model"]["distinct"],
           "transitions": sp["model"]["generated"] + rp["model"]["generated"] + rtp["model"]["generated"],
           "traces_validated_against_impl": npairs * 2 + ntab + len(sp["items"]),
           "twin_pairs_compiled": npairs, "reply_tables_in_process": ntab, "override_order_items": len([i for i in sp["items"] if i["id"].endswith("r")]),
           "samples": [{"pairs": pairs[:3]}, {"routing_twins": [a for a in sorted(rids) if a.endswith("p")]}],
           "exhaustive": False, "explanation": NOTE}
    common.write_evidence(prop, tier, seed, cov, time.time() - t0, len(rep.violations))
    return rc
