"""Routing group (C01-C05, later C10/C14): MC_Routing -> corpus -> real macros -> Trace_Routing."""
import json
import os
import shutil
import sys
import time

from .. import common
from ..common import CACHE, HARNESS, REPO, TARGET, ToolError, cargo, run, tlc_model, tlc_trace, read_ndjson, write_ndjson

sys.path.insert(0, HARNESS)
from gen import routing as gen_routing  # noqa: E402

CFG = {"quick": "MC_Routing_quick.cfg", "thorough": "MC_Routing_thorough.cfg"}
SHARDS = {"quick": 6, "thorough": 12}


def pipeline(tier, seed):
    """Model-check the bounded instance, emit the corpus, build it against /repo, run it.
    Returns dict(progs, trace, model, nprogs, nevents, wall...)."""
    t0 = time.time()
    tdir = os.path.join(CACHE, "tlc")
    gdir = os.path.join(CACHE, "gen", "routing-" + tier)
    os.makedirs(tdir, exist_ok=True)
    progs_path = os.path.join(tdir, "routing_progs_%s.ndjson" % tier)
    if os.path.exists(progs_path):
        os.unlink(progs_path)
    model = tlc_model("MC_Routing", CFG[tier], env={"VERIF_OUT": progs_path}, workers=8,
                      timeout=3000, expect=['"CORPUS"'], coverage=(tier == "thorough"))
    for a in ("Expand", "Next"):
        if a in model["never_taken"]:
            raise ToolError("vacuous routing model: action %s never taken" % a)
    progs = read_ndjson(progs_path)
    bins, rows = gen_routing.generate(progs, gdir, HARNESS, REPO, SHARDS[tier], "rshard", common.write_if_changed)
    # remove shard directories of an earlier run with more shards
    keep = {b for b, _ in bins}
    for d in os.listdir(gdir):
        if d.startswith("rshard") and d not in keep:
            shutil.rmtree(os.path.join(gdir, d), ignore_errors=True)
    rt_path = os.path.join(gdir, "progs_rt.ndjson")
    write_ndjson(rt_path, rows)
    rc, out, bwall = cargo(["build", "-q"], gdir, check=False, timeout=3000)
    if rc != 0:
        # a corpus program that the specification accepts does not build: report which
        raise BuildFailure(out, progs)
    trace = os.path.join(gdir, "trace.ndjson")
    with open(trace, "w") as tf:
        for b, ids in bins:
            part = os.path.join(gdir, "trace_%s.ndjson" % b)
            rc, out, _ = run([os.path.join(TARGET, "debug", b), rt_path, part], timeout=900)
            if rc != 0:
                raise ToolError("corpus binary %s failed:\n%s" % (b, out[-3000:]))
            with open(part) as pf:
                shutil.copyfileobj(pf, tf)
            os.unlink(part)
    nevents = sum(1 for _ in open(trace))
    return {"progs_path": progs_path, "progs": progs, "rows": rows, "trace": trace, "model": model, "gdir": gdir,
            "nevents": nevents, "wall_build": bwall, "wall": time.time() - t0}


class BuildFailure(Exception):
    def __init__(self, out, progs):
        super().__init__("corpus build failed")
        self.out = out
        self.progs = progs


def flight_context(events, idx):
    """The Deliver event (and program id) a rejected event belongs to."""
    i = idx - 1
    while i >= 0 and events[i].get("ev") not in ("Deliver", "Reset", "RemoteMsg"):
        i -= 1
    return events[i] if i >= 0 else {}


def key_of(check, ev, ctx):
    if ev.get("ev") == "Lists":
        return "%s|lists" % check
    if ev.get("ev") in ("RemoteMsg", "RemoteQueryReturn"):
        return "%s|remote:%s:%s" % (check, ev.get("helper", "query"), ev.get("handle", ""))
    if ev.get("ev") == "Schemas":
        return "%s|schemas:%s" % (check, "contract" if ev.get("part") == "contract" else "part")
    if ev.get("ev") == "Encode":
        return "%s|encode|%s" % (check, ev.get("kind"))
    if ctx.get("ev") == "Deliver":
        return "%s|shape=%s|body=%s|via=%s" % (check, ctx.get("shape"), ctx.get("body"), ctx.get("via"))
    return "%s|%s" % (check, ev.get("ev"))


def validate(prop, p, report, focus=None):
    """Validate the recorded trace with the checks of `prop` in focus; register rejections."""
    env = {"VERIF_PROGS": p["progs_path"], "VERIF_FOCUS": focus or prop}
    v = tlc_trace("Trace_Routing", "Trace_Routing.cfg", p["trace"], env=env, timeout=3000)
    events = None
    seen_deliveries = set()
    for rej in sorted(v["rejections"], key=lambda r: r["index"]):
        if events is None:
            events = read_ndjson(p["trace"])
        ev = rej["event"]
        ctx = flight_context(events, rej["index"])
        failed = [(a, b) for a, b in rej["failed"]]
        mine = [b for a, b in failed if a == prop]
        if not failed:
            # no named clause: the trace left the specification's behaviours altogether
            mine = ["event_not_explained_by_the_specification"]
        elif not mine:
            # blocked by a clause of another property (reported by that property's check)
            continue
        # one delivery (the document through the entry point, then through the multitest impl) is one case:
        # report the first clause that fails in it
        if ctx.get("ev") == "Deliver":
            d = (ctx.get("prog"), ctx.get("seq"))
            if d in seen_deliveries:
                continue
            seen_deliveries.add(d)
        check = mine[0]
        progid = ev.get("prog") or ctx.get("prog") or "?"
        what = "%s: clause `%s` fails at event %d (%s) of program %s; delivered: ep=%s shape=%s key=%s body=%s via=%s" % (
            prop, check, rej["index"], ev.get("ev"), progid, ctx.get("ep"), ctx.get("shape"), ctx.get("key"), ctx.get("body"), ctx.get("via"))
        prog = next((x for x in p["rows"] if x["id"] == progid), None)
        files = {"event.json": ev, "delivery.json": ctx, "tlc.txt": rej["out"]}
        if prog:
            files["program.json"] = {k: prog[k] for k in prog if k != "stim"}
        report.violation(key_of(check, ev, ctx), what, files)
    return v


def samples(p, n=3):
    evs = []
    want = {"Encode", "WrapperDecode", "Handler", "Return", "Lists"}
    with open(p["trace"]) as f:
        for line in f:
            e = json.loads(line)
            if e.get("ev") in want:
                want.discard(e["ev"])
                evs.append(e)
            if not want or len(evs) >= n + 2:
                break
    return evs


def coverage(p, v, note):
    m = p["model"]
    nprog = len(p["progs"])
    nstim = sum(len(x["stim"]) for x in p["progs"])
    nnames = len({mm["name"] for x in p["progs"] for part in x["parts"] for mm in part["methods"]})
    return {
        "states": m["distinct"], "transitions": m["generated"],
        "traces_validated_against_impl": nprog,
        "trace_events": v["events"], "trace_states": v["states"],
        "programs_compiled": nprog, "documents_delivered": nstim * 2, "distinct_handler_names": nnames,
        "samples": samples(p),
        "exhaustive": False,
        "explanation": note,
    }


def run_property(prop, tier, seed, note):
    t0 = time.time()
    rep = common.Report(prop)
    try:
        p = pipeline(tier, seed)
    except BuildFailure as b:
        rep.violation("corpus-does-not-build", "a program the specification accepts does not compile:\n" + b.out[-3000:],
                      {"cargo.txt": b.out})
        rc = rep.finish()
        common.write_evidence(prop, tier, seed, {"evaluations": len(b.progs), "distinct_nontrivial": len(b.progs),
                              "rule": "programs emitted by MC_Routing", "samples": [b.progs[0]["id"]]},
                              time.time() - t0, len(rep.violations))
        return rc
    v = validate(prop, p, rep)
    rc = rep.finish()
    common.write_evidence(prop, tier, seed, coverage(p, v, note), time.time() - t0, len(rep.violations))
    return rc
