"""C07 -- reply group (see checks/replies.py, spec/Reply.tla, spec/ReplyRT.tla, spec/Trace_Reply.tla)."""
from . import replies

NOTE = {
    "C07": "reply machine model-checked over the compiled tables; every (handler name, outcome, events, data class) reply incl. unknown ids "
           "dispatched through sv::dispatch_reply, the reply entry point and the multitest impl; routing, context, second parameter and "
           "pass-through arms judged by TLC; liveness (`Dispatched`) checked under fairness; the chain machine (Chain.tla: safety invariants and "
           "liveness `TxEnds`) model-checked over the same tables and every (handler name x target kind x target behaviour) transaction run "
           "on a cw-multi-test chain with each compiled program as the caller, validated by Trace_Chain",
    "C08": "ids, reply_on, kept message/gas limit and payload encoding of every builder (5 receiver classes x 2 value sets) and the end-to-end "
           "delivery of payload values to the handler judged by TLC; on the chain corpus the trigger is consumed by the chain and the payload comes "
           "back through it",
    "C09": "7 data modes x 6 data classes (absent / execute envelope / instantiate envelope / empty envelope / garbage / bad JSON) through the "
           "real dispatcher; extraction outcome and decoded value judged by TLC against Reply!Extract; on the chain corpus the data arrives in the "
           "envelopes the chain makes (incl. data longer than 127 bytes, present-but-empty data, instantiate responses)",
}


def run(prop, tier, seed, replay):
    if prop == "C07":
        # liveness of the reply machine (design level): every reply that reaches the dispatcher is answered
        from ..common import tlc_model
        tlc_model("MC_Reply", "MC_Reply_live.cfg", workers=8, timeout=900, coverage=False)
    return replies.run_property(prop, tier, seed, NOTE[prop], with_tables=False)
