"""Static group (C06, C13, C15, C17): MC_Static -> items -> in-process expansion by the real macro
implementations (verif-hook) -> Trace_Static."""
import json
import os
import subprocess
import sys
import time

from .. import common
from ..common import CACHE, HARNESS, REPO, ToolError, Lock, run, tlc_model, tlc_trace, read_ndjson, write_ndjson

sys.path.insert(0, HARNESS)
from gen import static as gen_static  # noqa: E402

CFG = {"quick": "MC_Static_quick.cfg", "thorough": "MC_Static_thorough.cfg"}
TARGET_INPROC = os.path.join(CACHE, "target-inproc")
HARNESS_RS = os.path.join(HARNESS, "inproc", "harness.rs")
FAMILY = {"C06": ["ep"], "C13": ["pt", "ep"], "C15": ["gen"], "C17": ["fw"], "C18": ["rule"], "C14": ["ep"]}
REAL_DIRS = [os.path.join(REPO, "sylvia", "tests"), os.path.join(REPO, "sylvia", "examples"), os.path.join(REPO, "examples")]


def hook_binary():
    """Build sylvia-derive's test binary from /repo's current tree with the hook on; return its path."""
    env = {"SYLVIA_VERIF_HARNESS": HARNESS_RS, "CARGO_TARGET_DIR": TARGET_INPROC, "CARGO_NET_OFFLINE": "true",
           "CARGO_PROFILE_DEV_DEBUG": "0", "CARGO_PROFILE_TEST_DEBUG": "0",
           "CARGO_PROFILE_DEV_OPT_LEVEL": "1", "CARGO_PROFILE_TEST_OPT_LEVEL": "1"}
    with Lock("cargo"):
        rc, out, _ = run(["cargo", "test", "--offline", "-p", "sylvia-derive", "--features", "verif-hook,mt", "--lib", "--no-run",
                          "--message-format=json"], env=env, cwd=REPO, timeout=3000)
    exe = None
    for line in out.splitlines():
        if line.startswith("{"):
            try:
                m = json.loads(line)
            except ValueError:
                continue
            if m.get("reason") == "compiler-artifact" and m.get("executable") and m.get("target", {}).get("name") == "sylvia_derive":
                exe = m["executable"]
    if rc != 0 or not exe:
        raise ToolError("building sylvia-derive with the verif-hook feature failed:\n" + out[-3000:])
    return exe


_SYSROOT = []


def sysroot_lib():
    """proc-macro test binaries link libstd dynamically (cargo sets this up when it runs them itself)."""
    if not _SYSROOT:
        rc, out, _ = run(["rustc", "--print", "sysroot"], cwd=REPO, check=True)
        root = out.strip().splitlines()[-1]
        rc, host, _ = run(["rustc", "-vV"], cwd=REPO, check=True)
        triple = [l.split(": ", 1)[1] for l in host.splitlines() if l.startswith("host: ")][0]
        _SYSROOT.append(os.path.join(root, "lib") + ":" + os.path.join(root, "lib", "rustlib", triple, "lib"))
    return _SYSROOT[0]


def expand(exe, inputs, tag, jobs=12):
    """Run the harness over `inputs` (list of (input spec, n)) in parallel processes; returns the event lines in order."""
    procs = []
    wd = os.path.join(CACHE, "inproc")
    os.makedirs(wd, exist_ok=True)
    for i, spec in enumerate(inputs):
        outp = os.path.join(wd, "%s_%d.out.ndjson" % (tag, i))
        if os.path.exists(outp):
            os.unlink(outp)
        env = dict(os.environ)
        env.update({"VERIF_INPROC_IN": spec, "VERIF_INPROC_OUT": outp,
                    "LD_LIBRARY_PATH": sysroot_lib() + ":" + env.get("LD_LIBRARY_PATH", "")})
        procs.append((subprocess.Popen([exe, "verif_hook_run", "--exact", "verif_hook::verif_hook_run", "--test-threads", "1"],
                                       env=env, cwd=os.path.join(REPO, "sylvia-derive"),
                                       stdout=subprocess.PIPE, stderr=subprocess.STDOUT, text=True), outp))
        while len([p for p, _ in procs if p.poll() is None]) >= jobs:
            time.sleep(0.05)
    lines = []
    for p, outp in procs:
        o, _ = p.communicate(timeout=1800)
        if p.returncode != 0 or not os.path.exists(outp):
            raise ToolError("in-process harness failed:\n" + (o or "")[-3000:])
        with open(outp) as f:
            lines.extend(f.readlines())
        os.unlink(outp)
    return lines


def pipeline(prop, tier, seed, families, with_real=False, second_run=False):
    t0 = time.time()
    tdir = os.path.join(CACHE, "tlc")
    wd = os.path.join(CACHE, "inproc")
    os.makedirs(wd, exist_ok=True)
    items_all = os.path.join(tdir, "static_items_%s.ndjson" % tier)
    if os.path.exists(items_all):
        os.unlink(items_all)
    model = tlc_model("MC_Static", CFG[tier], env={"VERIF_OUT": items_all}, workers=8, timeout=3000,
                      expect=['"ITEMS"'], coverage=True)
    if "Expand" in model["never_taken"]:
        raise ToolError("vacuous static model")
    items = [it for it in read_ndjson(items_all) if it["family"] in families]
    items_path = os.path.join(wd, "items_%s.ndjson" % prop)
    write_ndjson(items_path, items)
    exe = hook_binary()
    # shard the items over processes
    n = max(1, min(12, len(items) // 40 + 1))
    inputs = []
    for i in range(n):
        part = items[i::n]
        ip = os.path.join(wd, "%s_in_%d.txt" % (prop, i))
        with open(ip, "w") as f:
            f.write(gen_static.render_all(part))
        inputs.append(ip)
    lines = expand(exe, inputs, prop)
    if second_run:
        lines += expand(exe, inputs, prop + "b")           # another process: digests must agree
    nreal = 0
    if with_real:
        real = expand(exe, ["scan:" + ":".join(REAL_DIRS)], prop + "r")
        real = [l for l in real if "/tests/ui/" not in l]  # the ui tests are deliberately invalid programs
        nreal = len(real)
        lines += real
        if second_run:
            lines += [l for l in expand(exe, ["scan:" + ":".join(REAL_DIRS)], prop + "rb") if "/tests/ui/" not in l]
    # index the events: `ix` = position of the item in VERIF_PROGS (0: a real source of the repository), `prev` = position of
    # the previous event about the same item (the other process run), so that the trace spec needs neither a search nor a growing map
    pos = {it["id"]: i + 1 for i, it in enumerate(items)}
    last = {}
    out = []
    for n_, l in enumerate(lines):
        e = json.loads(l)
        e["ix"] = pos.get(e.get("id"), 0)
        e["prev"] = last.get(e.get("id"), 0)
        last[e.get("id")] = n_ + 1
        out.append(json.dumps(e) + "\n")
    lines = out
    trace = os.path.join(wd, "trace_%s.ndjson" % prop)
    with open(trace, "w") as f:
        f.writelines(lines)
    for ip in inputs:
        os.unlink(ip)
    return {"items": items, "items_path": items_path, "trace": trace, "model": model, "nreal": nreal,
            "nevents": len(lines), "wall": time.time() - t0}


def rules_compile(p):
    """Compile the items of family `rule` with rustc and the real macros (one library crate, one module per item);
    append one `Diag` event per item to the trace: every error reported inside the item, with the method it points into."""
    items = p["items"]
    rules = [it for it in items if it["family"] == "rule"]
    gdir = os.path.join(CACHE, "gen", "rules")
    src, ranges = gen_static.render_rules_crate(rules)
    from gen.routing import cargo_shard
    common.write_if_changed(os.path.join(gdir, "Cargo.toml"), cargo_shard("verif-rules", HARNESS, REPO).replace(
        "publish = false", "publish = false\n\n[lib]\npath = \"src/lib.rs\"\n\n[workspace]"))
    common.write_if_changed(os.path.join(gdir, "src", "lib.rs"), src)
    common.write_if_changed(os.path.join(gdir, ".cargo", "config.toml"), "[net]\noffline = true\n")
    rc, out, _ = common.cargo(["check", "--message-format=json"], gdir, check=False, timeout=1800)
    errs = {it["id"]: [] for it in rules}
    loose = []
    for line in out.splitlines():
        if not line.startswith("{"):
            continue
        try:
            m = json.loads(line)
        except ValueError:
            continue
        if m.get("reason") != "compiler-message" or m.get("message", {}).get("level") != "error":
            continue
        msg = m["message"]
        text = msg.get("message", "")
        if text.startswith("aborting due to") or text.startswith("could not compile"):
            continue
        prim = [sp for sp in msg.get("spans", []) if sp.get("is_primary")] or msg.get("spans", [])
        line_no = prim[0].get("line_start", 0) if prim else 0
        hit = None
        for iid, (a, b, members) in ranges.items():
            if a <= line_no <= b:
                hit = iid
                member = next((n for n, (x, y) in members.items() if x <= line_no <= y), "")
                errs[iid].append({"code": (msg.get("code") or {}).get("code", "") or "", "msg": text[:200], "member": member,
                                  "panicked": text.startswith("custom attribute panicked") or text.startswith("proc macro panicked") or "proc-macro derive panicked" in text,
                                  "line": line_no - a + 1})
        if hit is None:
            loose.append(text)
    if loose:
        raise ToolError("the rules crate has errors outside every item (harness prelude?):\n" + "\n".join(loose[:5]))
    if rc != 0 and not any(errs.values()):
        raise ToolError("cargo check of the rules crate failed without diagnostics:\n" + out[-2000:])
    pos = {it["id"]: i + 1 for i, it in enumerate(items)}
    evs = [{"ev": "Diag", "id": it["id"], "ix": pos[it["id"]], "prev": 0, "macro": it["macro"], "errors": errs[it["id"]]} for it in rules]
    with open(p["trace"], "a") as f:
        for e in evs:
            f.write(json.dumps(e) + "\n")
    p["nevents"] += len(evs)
    p["rules_src"] = src
    p["rules_ranges"] = ranges
    return evs


def validate(prop, p, report):
    v = tlc_trace("Trace_Static", "Trace_Static.cfg", p["trace"], env={"VERIF_PROGS": p["items_path"], "VERIF_FOCUS": prop},
                  timeout=3000, resync="next")
    by_id = {it["id"]: it for it in p["items"]}
    n = 0
    for rej in sorted(v["rejections"], key=lambda r: r["index"]):
        ev = rej["event"]
        mine = [b for a, b in rej["failed"] if a == prop]
        if not rej["failed"]:
            mine = ["event_not_explained_by_the_specification"]
        if not mine:
            continue
        n += 1
        if n > 40:
            continue
        it = by_id.get(ev.get("id"))
        src = gen_static.render(it) if it else ev.get("id", "")
        key = "%s|%s" % (mine[0], feature_key(prop, it, ev))
        what = "%s: clause `%s` fails for item %s (%s macro)" % (prop, mine[0], ev.get("id"), ev.get("macro"))
        if ev.get("ev") == "Diag":
            what += "; rustc reported inside the item: %s" % json.dumps(ev.get("errors"))[:600]
        report.violation(key, what, {"item.rs": src, "event.json": ev, "item.json": it or {}})
    return v


def feature_key(prop, it, ev):
    """The feature of the input that identifies a finding (not the item's serial number)."""
    if it is None:
        return "real:" + str(ev.get("id", "")).split("#")[0]
    if it["family"] == "ep":
        return "overrides=" + ",".join(it["overrides"])
    if it["family"] == "rule":
        return "rule=" + it["rule"]
    if it["family"] == "pt":
        return "%s:placement=%s" % (it["macro"], it["id"][2:])
    if it["family"] == "gen":      # the shapes of the handlers' argument and response types (type parameters all called T)
        import re as _re
        norm = lambda t: _re.sub(r"\bT\d+\b", "T", t)  # noqa: E731
        parts = []
        for m in it["members"]:
            if m.get("kind"):
                tys = ",".join(norm(q["ty"]) for q in m["params"])
                parts.append("%s(%s)%s" % (m["kind"], tys, ("->" + norm(m["ret"])) if m["kind"] == "query" else ""))
        return "gen:" + ";".join(parts)
    return it["family"] + ":" + it["id"]


def run_property(prop, tier, seed, note, with_real=False, second_run=False):
    t0 = time.time()
    rep = common.Report(prop)
    fams = FAMILY[prop] if tier == "quick" or prop != "C13" else ["pt", "ep", "fw", "gen"]
    p = pipeline(prop, tier, seed, fams, with_real=with_real, second_run=second_run)
    v = validate(prop, p, rep)
    rc = rep.finish()
    evs = read_ndjson(p["trace"])
    cov = {
        "states": p["model"]["distinct"], "transitions": p["model"]["generated"],
        "traces_validated_against_impl": len(evs),
        "items_expanded_in_process": len(p["items"]), "real_source_items": p["nreal"],
        "samples": [{"source": gen_static.render(p["items"][0]), "event": slim(evs[0])}] if p["items"] else [slim(evs[0])],
        "exhaustive": True,
        "explanation": note,
    }
    common.write_evidence(prop, tier, seed, cov, time.time() - t0, len(rep.violations))
    return rc


def slim(e):
    return {k: e[k] for k in e if k in ("id", "macro", "verdict", "entry_points", "deterministic", "digest")}
