"""C05 — name collisions rejected at build time; published lists sorted and truthful."""
import time

from .. import common
from . import merge


def run(prop, tier, seed, replay):
    t0 = time.time()
    rep = common.Report(prop)
    m = merge.piece(rep, tier, seed)
    rc = rep.finish()
    cov = {
        "states": m["states"], "transitions": m["transitions"],
        "traces_validated_against_impl": m["traces"],
        "samples": m["samples"],
        "exhaustive": True,
        "pieces": {"merge_scan": m["note"]},
    }
    common.write_evidence(prop, tier, seed, cov, time.time() - t0, len(rep.violations))
    return rc
