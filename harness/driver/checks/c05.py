"""C05 — name collisions rejected at build time; published lists sorted and truthful."""
import time

from .. import common
from . import merge, routing


def run(prop, tier, seed, replay):
    t0 = time.time()
    rep = common.Report(prop)
    m = merge.piece(rep, tier, seed)
    try:
        p = routing.pipeline(tier, seed)
        v = routing.validate(prop, p, rep)
        cov = routing.coverage(p, v, "published lists of every part of the compiled corpus compared by TLC with the sorted set of "
                               "wire names (Lists events); Merge scan model-checked and replayed (Merge events)")
    except routing.BuildFailure as b:
        rep.violation("corpus-does-not-build", "a program without a shared name does not compile:\n" + b.out[-3000:], {"cargo.txt": b.out})
        cov = {"states": 0, "transitions": 0, "traces_validated_against_impl": 0, "samples": []}
    rc = rep.finish()
    cov["states"] += m["states"]
    cov["transitions"] += m["transitions"]
    cov["traces_validated_against_impl"] += m["traces"]
    cov["samples"] = m["samples"][:2] + cov["samples"][:2]
    cov["pieces"] = {"merge_scan": m["note"]}
    common.write_evidence(prop, tier, seed, cov, time.time() - t0, len(rep.violations))
    return rc
