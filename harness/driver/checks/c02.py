"""C02 -- routing group (see checks/routing.py, spec/Runtime.tla, spec/Trace_Routing.tla)."""
from . import routing

NOTE = {
    "C01": "MC_Routing bounded model + every handler of the compiled corpus encoded with two value tuples; JSON shape, round trip, "
           "parse of the specification's document, and each part's accept set judged by TLC on Encode/WrapperDecode events",
    "C02": "every well-formed document of every part delivered through the generated entry point functions and the multitest "
           "Contract impl; Handler/Return events (which handler, arguments by name, context, outcome, storage) judged by TLC; "
           "liveness of the machine (`Answered`: every delivered document is answered) checked under fairness on a small instance; "
           "dispatch of bridged interface handlers on contracts with chain-custom types: response untouched, caller's context (bridge corpus of C11); "
           "dispatch through a chain: every operation of the multitest histories (C12) runs the handler it names exactly once, also when the same "
           "query is asked again after the chain alone has moved",
    "C03": "every well-formed document of every part plus malformed derivatives (unknown/near-miss names, {}, two keys, duplicate key, "
           "non-objects, missing/ill-typed/extra members, non-object body) decoded by the contract-level message and by each part; "
           "relation judged by TLC on WrapperDecode events",
    "C04": "every well-formed message of every kind delivered to the entry point of every other kind, incl. programs whose kinds share "
           "names and shapes; TLC checks that any handler that runs has the entry point's kind",
}


def run(prop, tier, seed, replay):
    if prop == "C02":
        # liveness of the routing machine (design level): every delivered document is answered -- FairSpec, no constraint
        from ..common import tlc_model
        tlc_model("MC_Routing", "MC_Routing_live.cfg", workers=8, timeout=1200, coverage=False)
    extra = None
    if prop == "C02":
        # dispatch on a contract with chain-custom types (bridged interface handlers): the response and the context, judged as C02
        from . import c11

        from . import c12

        def extra(rep):
            cov = c11.bridge(prop, tier, seed, rep)
            # dispatch through a chain (the multitest histories of C12): every operation runs the handler it names exactly once
            mt = c12.multitest(prop, tier, seed, rep)
            return {"bridged_dispatches_judged": cov["traces_validated_against_impl"], "multitest_operations_judged": mt["operations"]}
    return routing.run_property(prop, tier, seed, NOTE[prop], extra=extra)
