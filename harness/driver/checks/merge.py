"""C05, piece 1: the overlap scan (Merge.tla) model-checked and bound to the real function."""
import os

from .. import common
from ..common import CACHE, tlc_model, tlc_trace, harness_bin, run, ToolError, read_ndjson

POOLS = 4


def piece(report, tier, seed):
    out = {}
    tdir = os.path.join(CACHE, "tlc")
    cfgs = [("MC_Merge_quick.cfg", "machine", "q")]
    if tier == "thorough":
        cfgs.append(("MC_Merge_thorough.cfg", "summary", "t"))
    states = transitions = 0
    events_total = 0
    samples = []
    exe = harness_bin("verif-merge")
    # termination of the scan under fairness (small instance; liveness needs no constraint)
    live = tlc_model("MC_Merge", "MC_Merge_live.cfg", workers=8, timeout=600)
    states += live["distinct"]
    transitions += live["generated"]
    for cfg, mode, tag in cfgs:
        stim = os.path.join(tdir, "merge_stim_%s.ndjson" % tag)
        if os.path.exists(stim):
            os.unlink(stim)
        r = tlc_model("MC_Merge", cfg, env={"VERIF_OUT": stim}, workers=12, timeout=1500, expect=['"STIMULI"'], coverage=True)
        if r["never_taken"]:
            raise ToolError("vacuous model run, actions never taken: %s" % r["never_taken"])
        states += r["distinct"]
        transitions += r["generated"]
        pools = range(POOLS) if mode == "machine" and tier == "thorough" else [seed % POOLS]
        for pool in pools:
            trace = os.path.join(tdir, "merge_trace_%s_%d.ndjson" % (tag, pool))
            rc, o, _ = run([exe, stim, trace, str(pool)], timeout=900)
            if rc != 0:
                raise ToolError("merge replay binary failed:\n" + o[-2000:])
            v = tlc_trace("Trace_Merge", "Trace_Merge.cfg", trace, env={"VERIF_MERGE_MODE": mode}, resync="next",
                          timeout=3000, heap="12g")
            evs = v["events"]
            events_total += evs
            for rej in v["rejections"][:40]:       # (a broken scan fails thousands of tuples: forty replays are enough)
                e = rej["event"]
                key = "merge:%s" % (json_key(e["strs"]))
                report.violation(key, "assert_no_intersection(%s) -> %s, the specification's scan gives the other verdict (%s)"
                                 % (e["strs"], e["verdict"], rej["failed"]), {"event.json": e, "tlc.txt": rej["out"]})
            if not samples:
                rows = read_ndjson(trace)
                samples = [rows[i] for i in (0, len(rows) // 3, len(rows) - 1)]
            os.unlink(trace)
    out.update(states=states, transitions=transitions, traces=events_total, samples=samples,
               note="Merge machine model-checked for every tuple of <=3 (thorough <=4) sorted duplicate-free lists "
                    "(len<=3, 5 tokens): termination, in-bounds, panics iff lists intersect; every tuple replayed into the real "
                    "assert_no_intersection and validated as a Merge event (machine re-run as silent steps)")
    return out


def json_key(x):
    import json
    return json.dumps(x, separators=(",", ":"))
