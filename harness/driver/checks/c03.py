"""C03 -- routing group (see checks/routing.py, spec/Runtime.tla, spec/Trace_Routing.tla)."""
from . import routing

NOTE = {
    "C01": "MC_Routing bounded model + every handler of the compiled corpus encoded with two value tuples; JSON shape, round trip, "
           "parse of the specification's document, and each part's accept set judged by TLC on Encode/WrapperDecode events",
    "C02": "every well-formed document of every part delivered through the generated entry point functions and the multitest "
           "Contract impl; Handler/Return events (which handler, arguments by name, context, outcome, storage) judged by TLC",
    "C03": "every well-formed document of every part plus malformed derivatives (unknown/near-miss names, {}, two keys, duplicate key, "
           "non-objects, missing/ill-typed/extra members, non-object body) decoded by the contract-level message and by each part; "
           "relation judged by TLC on WrapperDecode events",
    "C04": "every well-formed message of every kind delivered to the entry point of every other kind, incl. programs whose kinds share "
           "names and shapes; TLC checks that any handler that runs has the entry point's kind",
}


def run(prop, tier, seed, replay):
    extra = None
    if prop == "C03":
        # "exactly one part accepts" rests on the build-time overlap check: every tuple of sorted name lists replayed into it (Merge.tla)
        from . import merge

        def extra(rep):
            mp = merge.piece(rep, "quick", seed)
            return {"overlap_check_tuples_replayed": mp["traces"]}
    return routing.run_property(prop, tier, seed, NOTE[prop], extra=extra)
