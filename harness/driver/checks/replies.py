"""Reply group (C07, C08, C09; pieces of C14 and C18): MC_Reply -> tables -> real macros (compiled and in-process)
-> Trace_Reply / Trace_Tables."""
import json
import os
import shutil
import sys
import time

from .. import common
from ..common import CACHE, HARNESS, REPO, TARGET, ToolError, run, tlc_model, tlc_trace, read_ndjson, write_ndjson
from . import static as static_mod

sys.path.insert(0, HARNESS)
from gen import replies as gen_replies  # noqa: E402

CFG = {"quick": "MC_Reply_quick.cfg", "thorough": "MC_Reply_thorough.cfg"}
SHARDS = {"quick": 8, "thorough": 14}


def model(tier):
    tdir = os.path.join(CACHE, "tlc")
    progs_path = os.path.join(tdir, "reply_progs_%s.ndjson" % tier)
    tables_path = os.path.join(tdir, "reply_tables_%s.ndjson" % tier)
    for p in (progs_path, tables_path):
        if os.path.exists(p):
            os.unlink(p)
    m = tlc_model("MC_Reply", CFG[tier], env={"VERIF_OUT": progs_path, "VERIF_OUT2": tables_path}, workers=8, timeout=3000,
                  expect=['"TABLES"'], coverage=(tier == "thorough"))
    return m, progs_path, tables_path


def pipeline(tier, seed):
    t0 = time.time()
    m, progs_path, tables_path = model(tier)
    progs = read_ndjson(progs_path)
    gdir = os.path.join(CACHE, "gen", "reply-" + tier)
    failed = {}
    loose = None
    for attempt in range(3):
        bins, spans = gen_replies.generate(progs, gdir, HARNESS, REPO, SHARDS[tier], "qshard", common.write_if_changed, exclude=set(failed))
        keep = {b for b, _ in bins}
        for d in os.listdir(gdir):
            if d.startswith("qshard") and d not in keep:
                shutil.rmtree(os.path.join(gdir, d), ignore_errors=True)
        f2, loose = common.corpus_build(gdir, spans)
        if loose:
            raise ToolError("reply corpus: compile errors that cannot be attributed to a program:\n" + loose[-3000:])
        if not f2:
            break
        failed.update(f2)
    else:
        raise ToolError("reply corpus does not build after excluding failing programs")
    trace = os.path.join(gdir, "trace.ndjson")
    with open(trace, "w") as tf:
        for p in progs:
            tf.write(json.dumps({"ev": "Build", "prog": p["id"], "verdict": "error" if p["id"] in failed else "ok",
                                 "msg": failed.get(p["id"], "")[:600]}) + "\n")
        for b, ids in bins:
            part = os.path.join(gdir, "trace_%s.ndjson" % b)
            rc, out, _ = run([os.path.join(TARGET, "debug", b), progs_path, part], timeout=900)
            if rc != 0:
                raise ToolError("reply corpus binary %s failed:\n%s" % (b, out[-3000:]))
            with open(part) as pf:
                shutil.copyfileobj(pf, tf)
            os.unlink(part)
    # the same programs on a chain: sub-messages built by the generated builders, run and answered by cw-multi-test (Chain.tla)
    chain_trace = os.path.join(gdir, "trace_chain.ndjson")
    with open(chain_trace, "w") as tf:
        for b, ids in bins:
            part = os.path.join(gdir, "trace_chain_%s.ndjson" % b)
            rc, out, _ = run([os.path.join(TARGET, "debug", b), progs_path, part, "chain"], timeout=900)
            if rc != 0:
                raise ToolError("reply corpus binary %s (chain mode) failed:\n%s" % (b, out[-3000:]))
            with open(part) as pf:
                shutil.copyfileobj(pf, tf)
            os.unlink(part)
    cm = tlc_model("MC_Chain", "MC_Chain_%s.cfg" % tier, env={"VERIF_PROGS": progs_path}, workers=8, timeout=1800, coverage=(tier == "thorough"))
    # liveness of the chain machine (design level): every transaction that was fired ends (commit or roll back), under fairness
    tlc_model("MC_Chain", "MC_Chain_live.cfg", env={"VERIF_PROGS": progs_path}, workers=8, timeout=1800, coverage=False)
    return {"chain_trace": chain_trace, "chain_model": cm, "progs": progs, "progs_path": progs_path, "tables_path": tables_path, "trace": trace, "model": m,
            "failed": failed, "wall": time.time() - t0}


def key_of(check, ev, ctx, progs):
    prog = progs.get(ev.get("prog") or ctx.get("prog"))
    shape = ""
    if prog:
        shape = ";".join("%s:%s:%s:%s" % (",".join(m["handlers"]) or "-", m["on"], m["data"], m["payload"]) for m in prog["methods"])
    if ev.get("ev") == "Build":
        return "%s|build|%s" % (check, shape)
    if ctx.get("ev") == "Reply":
        return "%s|reply:%s:%s|%s" % (check, ctx.get("result"), ctx.get("class"), shape)
    return "%s|%s|%s" % (check, ev.get("ev"), shape)


def validate(prop, p, report):
    # a program the specification accepts must build, whichever reply property is being judged
    for pid, msg in sorted(p.get("failed", {}).items()):
        q = next((x for x in p["progs"] if x["id"] == pid), {})
        if not q.get("valid", True):
            continue
        first = msg.strip().splitlines()[0] if msg.strip() else ""
        report.violation("reply-program-does-not-build|%s|%s" % (q.get("family"), first[:70]),
                         "%s: reply program %s (family %s), whose table the specification accepts, does not build: %s" % (prop, pid, q.get("family"), first),
                         {"cargo.txt": msg, "program.rs": gen_replies.program_src(q) if q else ""})
    v = tlc_trace("Trace_Reply", "Trace_Reply.cfg", p["trace"], env={"VERIF_PROGS": p["progs_path"], "VERIF_FOCUS": prop}, timeout=3000)
    events = None
    progs = {x["id"]: x for x in p["progs"]}
    seen = set()
    for rej in sorted(v["rejections"], key=lambda r: r["index"]):
        if events is None:
            events = read_ndjson(p["trace"])
        ev = rej["event"]
        i = rej["index"] - 1
        while i >= 0 and events[i].get("ev") not in ("Reply", "Reset", "SubMsgBuilt", "Build"):
            i -= 1
        ctx = events[i] if i >= 0 else {}
        mine = [b for a, b in rej["failed"] if a == prop]
        if not rej["failed"]:
            mine = ["event_not_explained_by_the_specification"]
        if not mine:
            continue
        key = key_of(mine[0], ev, ctx, progs)
        if key in seen:
            continue
        seen.add(key)
        pid = ev.get("prog") or ctx.get("prog")
        what = "%s: clause `%s` fails at event %d (%s) of reply program %s; reply: handler=%s result=%s class=%s via=%s" % (
            prop, mine[0], rej["index"], ev.get("ev"), pid, ctx.get("h"), ctx.get("result"), ctx.get("class"), ctx.get("via"))
        files = {"event.json": ev, "context.json": ctx, "tlc.txt": rej["out"]}
        if pid in progs:
            files["program.json"] = {k: progs[pid][k] for k in progs[pid] if k != "stim"}
            files["program.rs"] = gen_replies.program_src(progs[pid])
        report.violation(key, what, files)
    return v


def validate_chain(prop, p, report):
    """Trace_Chain over the transactions of the chain corpus; clauses of `prop` only."""
    v = tlc_trace("Trace_Chain", "Trace_Chain.cfg", p["chain_trace"], env={"VERIF_PROGS": p["progs_path"], "VERIF_FOCUS": prop}, timeout=3000,
                  resync="reset")
    events = None
    progs = {x["id"]: x for x in p["progs"]}
    seen = set()
    for rej in sorted(v["rejections"], key=lambda r: r["index"]):
        if events is None:
            events = read_ndjson(p["chain_trace"])
        ev = rej["event"]
        i = rej["index"] - 1
        while i >= 0 and events[i].get("ev") not in ("ChainFire", "ChainInit"):
            i -= 1
        ctx = events[i] if i >= 0 else {}
        j = i
        while j >= 0 and events[j].get("ev") != "ChainInit":
            j -= 1
        pid = events[j].get("prog") if j >= 0 else ctx.get("prog")
        mine = [b for a, b in rej["failed"] if a == prop]
        if not rej["failed"]:
            mine = ["event_not_explained_by_the_specification"]
        if not mine:
            continue
        prog = progs.get(pid)
        shape = ""
        if prog:
            shape = ";".join("%s:%s:%s:%s" % (",".join(m["handlers"]) or "-", m["on"], m["data"], m["payload"]) for m in prog["methods"])
        key = "%s|chain:%s:%s|%s" % (mine[0], ctx.get("kind"), ctx.get("mode"), shape)
        if key in seen:
            continue
        seen.add(key)
        what = "%s: clause `%s` fails at event %d (%s) of the chain corpus, program %s; transaction: handler=%s kind=%s mode=%s" % (
            prop, mine[0], rej["index"], ev.get("ev"), pid, ctx.get("h"), ctx.get("kind"), ctx.get("mode"))
        files = {"event.json": ev, "transaction.json": ctx, "tlc.txt": rej["out"]}
        if prog:
            files["program.json"] = {k: prog[k] for k in prog if k not in ("stim", "chain")}
            files["program.rs"] = gen_replies.program_src(prog)
        report.violation(key, what, files)
    return v


def tables_inproc(prop, p, report):
    """All small reply tables expanded in-process: accept/reject verdict vs ValidTable (C18, C14)."""
    tables = read_ndjson(p["tables_path"])
    wd = os.path.join(CACHE, "inproc")
    os.makedirs(wd, exist_ok=True)
    exe = static_mod.hook_binary()
    n = max(1, min(12, len(tables) // 60 + 1))
    inputs = []
    for i in range(n):
        ip = os.path.join(wd, "%s_tables_in_%d.txt" % (prop, i))
        with open(ip, "w") as f:
            for t in tables[i::n]:
                f.write("//@@ %s contract \n" % t["id"])
                f.write(table_item_src(t))
        inputs.append(ip)
    lines = static_mod.expand(exe, inputs, prop + "t")
    for ip in inputs:
        os.unlink(ip)
    trace = os.path.join(wd, "trace_tables_%s.ndjson" % prop)
    with open(trace, "w") as f:
        f.writelines(lines)
    v = tlc_trace("Trace_Tables", "Trace_Tables.cfg", trace, env={"VERIF_PROGS": p["tables_path"], "VERIF_FOCUS": prop}, timeout=3000,
                  resync="next")
    by_id = {t["id"]: t for t in tables}
    n_rep = 0
    for rej in sorted(v["rejections"], key=lambda r: r["index"]):
        mine = [b for a, b in rej["failed"] if a == prop]
        if not rej["failed"]:
            mine = ["event_not_explained_by_the_specification"]
        if not mine:
            continue
        t = by_id.get(rej["event"].get("id"), {})
        shape = ";".join("%s:%s:%s" % (",".join(m["handlers"]) or "-", m["on"], m["payload"]) for m in t.get("methods", []))
        n_rep += 1
        if n_rep <= 30:
            report.violation("%s|table|%s" % (mine[0], shape), "%s: clause `%s` fails for reply table %s [%s]: macro verdict %s" % (
                prop, mine[0], rej["event"].get("id"), shape, rej["event"].get("verdict")),
                {"item.rs": table_item_src(t) if t else "", "event.json": {k: rej["event"][k] for k in ("id", "verdict", "msg") if k in rej["event"]}})
    return v, len(tables)


def table_item_src(t):
    o = ["#[sv::error(ContractError)]\n#[sv::features(replies)]\nimpl Ctr {\n    pub const fn new() -> Self { Ctr }\n"
         "    #[sv::msg(instantiate)]\n    fn instantiate(&self, ctx: InstantiateCtx) -> Result<Response, ContractError> { todo!() }\n"]
    prog = {"id": t["id"]}
    for m in t["methods"]:
        o.append(gen_replies.method_src(prog, m).replace("        ", "    "))
    o.append("}\n")
    return "".join(o)


def run_property(prop, tier, seed, note, with_tables=False):
    t0 = time.time()
    rep = common.Report(prop)
    p = pipeline(tier, seed)
    v = validate(prop, p, rep)
    cv = validate_chain(prop, p, rep) if prop in ("C07", "C08", "C09") else None
    bridged = None
    if prop == "C08":
        # a built sub-message on its way out through a bridged interface handler (the bridge corpus of C11, judged for C08)
        from . import c11
        bridged = c11.bridge(prop, tier, seed, rep)
    ntab = 0
    tv = None
    if with_tables:
        tv, ntab = tables_inproc(prop, p, rep)
    rc = rep.finish()
    evs = []
    want = {"SubMsgBuilt", "Reply", "ReplyHandler", "ReplyReturn"}
    with open(p["trace"]) as f:
        for line in f:
            e = json.loads(line)
            if e.get("ev") in want:
                want.discard(e["ev"])
                evs.append(e)
            if not want:
                break
    cov = {"states": p["model"]["distinct"], "transitions": p["model"]["generated"],
           "traces_validated_against_impl": len(p["progs"]) - len(p["failed"]),
           "trace_events": v["events"], "reply_programs_compiled": len(p["progs"]), "programs_failing_to_build": sorted(p["failed"]),
           "replies_dispatched": sum(1 for pr in p["progs"] for s in pr["stim"] if s["op"] == "reply") * 3,
           "tables_expanded_in_process": ntab,
           "chain_model_states": p["chain_model"]["distinct"],
           "chain_transactions": sum(len(pr.get("chain", [])) for pr in p["progs"] if pr["id"] not in p["failed"]),
           "chain_trace_events": cv["events"] if cv else 0,
           "bridged_responses_judged": bridged["traces_validated_against_impl"] if bridged else 0,
           "samples": evs, "exhaustive": False, "explanation": note}
    common.write_evidence(prop, tier, seed, cov, time.time() - t0, len(rep.violations))
    return rc
