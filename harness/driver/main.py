import importlib
import sys
import time
import traceback

from . import common
from .common import ToolError, log

# property id -> module under driver.checks with `run(prop, tier, seed, replay) -> exit code`
REGISTRY = {
    "C01": "c01",
    "C02": "c02",
    "C03": "c03",
    "C04": "c04",
    "C05": "c05",
    "C06": "c06",
    "C07": "c07",
    "C08": "c08",
    "C09": "c09",
    "C10": "c10",
    "C11": "c11",
    "C12": "c12",
    "C13": "c13",
    "C14": "c14",
    "C15": "c15",
    "C16": "c16",
    "C17": "c17",
    "C18": "c18",
    "C19": "c19",
    "C20": "c20",
}


def main(argv):
    if not argv:
        log(__doc__ or "usage: bin/check <id> [quick|thorough] [--replay dir]")
        return 2
    prop = argv[0]
    cli_tier = None
    replay = None
    i = 1
    while i < len(argv):
        if argv[i] in ("quick", "thorough"):
            cli_tier = argv[i]
        elif argv[i] == "--replay" and i + 1 < len(argv):
            replay = argv[i + 1]
            i += 1
        i += 1
    tier, seed = common.tier_and_seed(cli_tier)
    if replay:
        # a replay directory names the failing case by its key; the check is re-run and reports that case only
        import os
        what = os.path.join(replay, "what.txt")
        if not os.path.exists(what):
            log("no what.txt in %s" % replay)
            return 2
        for line in open(what):
            if line.startswith("key="):
                os.environ["VERIF_REPLAY_KEY"] = line[4:].rstrip("\n")
        os.environ["VERIF_KEEP_REPLAYS"] = "1"
    if prop == "selftest":
        from .checks import selftest
        return selftest.run(tier, seed)
    if prop not in REGISTRY:
        log("unknown property %s" % prop)
        return 2
    mod = importlib.import_module(".checks." + REGISTRY[prop], __package__)
    t0 = time.time()
    try:
        return mod.run(prop, tier, seed, replay)
    except ToolError as e:
        log("TOOL-ERROR (%s, %.0fs): %s" % (prop, time.time() - t0, e))
        return 2
    except Exception:
        traceback.print_exc()
        return 2
