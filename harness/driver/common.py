"""Shared plumbing for the checks: TLC runs, cargo builds, trace validation, evidence, findings.

Exit codes (DESIGN §3.4): 0 property held on everything explored, 1 violation (with a
`VIOLATION property=<id> replay=<path>` line), 2 tool error / timeout / vacuous run.
"""
import fcntl
import hashlib
import json
import os
import re
import shutil
import subprocess
import sys
import time

VERIF = os.path.dirname(os.path.dirname(os.path.dirname(os.path.abspath(__file__))))
REPO = os.environ.get("VERIF_REPO", "/repo")
SPEC = os.path.join(VERIF, "spec")
CACHE = os.path.join(VERIF, ".cache")
HARNESS = os.path.join(VERIF, "harness")
TARGET = os.path.join(CACHE, "target")
EVIDENCE = os.path.join(VERIF, "evidence")
REPLAYS = os.path.join(VERIF, "replays")
FINDINGS = os.path.join(VERIF, "known_findings.json")

TRUSTED = [
    "TLC 1.8.0 and the CommunityModules Json/IOUtils modules",
    "rustc/cargo of the repository's toolchain",
    "serde, serde-json-wasm, serde-cw-value and cosmwasm-std for the encoding of individual argument values",
    "cw-multi-test as the chain",
    "the harness's exact JSON reader and tagged projection (harness/rt, unit-tested in setup_cmd)",
    "the generator from program descriptions to Rust source (harness/gen)",
]


class ToolError(Exception):
    pass


def log(*a):
    print(*a, file=sys.stderr, flush=True)


def tier_and_seed(cli_tier):
    tier = os.environ.get("VERIF_TIER") or cli_tier or "quick"
    if tier not in ("quick", "thorough"):
        tier = "quick"
    try:
        seed = int(os.environ.get("VERIF_SEED", "20261002"))
    except ValueError:
        seed = 20261002
    return tier, seed


def ensure_dirs():
    for d in (CACHE, os.path.join(CACHE, "tlc"), EVIDENCE):
        os.makedirs(d, exist_ok=True)


class Lock:
    """Serialise cargo and TLC use between concurrently running checks."""

    def __init__(self, name):
        ensure_dirs()
        self.path = os.path.join(CACHE, name + ".lock")

    def __enter__(self):
        self.f = open(self.path, "w")
        fcntl.flock(self.f, fcntl.LOCK_EX)
        return self

    def __exit__(self, *a):
        fcntl.flock(self.f, fcntl.LOCK_UN)
        self.f.close()


def run(cmd, env=None, cwd=None, timeout=None, check=False):
    e = dict(os.environ)
    e.setdefault("CARGO_NET_OFFLINE", "true")
    if env:
        e.update(env)
    t0 = time.time()
    try:
        p = subprocess.run(cmd, env=e, cwd=cwd, timeout=timeout, stdout=subprocess.PIPE,
                           stderr=subprocess.STDOUT, text=True, errors="replace")
    except subprocess.TimeoutExpired as ex:
        out = ex.stdout if isinstance(ex.stdout, str) else (ex.stdout or b"").decode("utf8", "replace")
        raise ToolError("timeout after %ss: %s\n%s" % (timeout, " ".join(cmd), out[-2000:]))
    if check and p.returncode != 0:
        raise ToolError("command failed (%d): %s\n%s" % (p.returncode, " ".join(cmd), p.stdout[-4000:]))
    return p.returncode, p.stdout, time.time() - t0


# ----------------------------------------------------------------------------- cargo

def sync_lockfile(ws_dir):
    """Workspaces outside /repo resolve offline from a copy of /repo/Cargo.lock."""
    src = os.path.join(REPO, "Cargo.lock")
    dst = os.path.join(ws_dir, "Cargo.lock")
    stamp = dst + ".src-sha"
    h = hashlib.sha256(open(src, "rb").read()).hexdigest()
    if not os.path.exists(dst) or not os.path.exists(stamp) or open(stamp).read() != h:
        shutil.copyfile(src, dst)
        with open(stamp, "w") as f:
            f.write(h)


def relocate_harness():
    """The harness crates name the repository by the path /repo; when a run is pointed at another checkout
    (VERIF_REPO, e.g. the snapshot of a background run) the manifests of *this* copy of the harness are rewritten."""
    if REPO == "/repo":
        return
    for name in os.listdir(HARNESS):
        m = os.path.join(HARNESS, name, "Cargo.toml")
        if os.path.isfile(m):
            t = open(m).read()
            if 'path = "/repo/' in t:
                with open(m, "w") as f:
                    f.write(t.replace('path = "/repo/', 'path = "%s/' % REPO))


def cargo(args, ws_dir, env=None, timeout=3600, check=True):
    relocate_harness()
    sync_lockfile(ws_dir)
    e = {"CARGO_TARGET_DIR": TARGET, "CARGO_NET_OFFLINE": "true", "RUSTFLAGS": os.environ.get("RUSTFLAGS", "")}
    if env:
        e.update(env)
    with Lock("cargo"):
        return run(["cargo"] + args + ["--offline"], env=e, cwd=ws_dir, timeout=timeout, check=check)


def harness_bin(name):
    """Build (from /repo's current tree) and return the path of a static harness binary."""
    cargo(["build", "-q", "-p", name], HARNESS)
    return os.path.join(TARGET, "debug", name)


# ----------------------------------------------------------------------------- TLC

_STATS = re.compile(r"(\d+) states generated, (\d+) distinct states found")
TLA_CP = "/opt/veriftools/tla/tla2tools.jar:/opt/veriftools/tla/CommunityModules-deps.jar"


def tlc(module, cfg, env=None, workers=8, timeout=900, simulate=None, deque=False, heap=None, coverage=True, extra=None):
    """Run TLC on spec/<module>.tla with spec/<cfg>. Returns dict(out, generated, distinct, rc, wall)."""
    ensure_dirs()
    meta = os.path.join(CACHE, "tlc", "meta-%s-%d" % (module, os.getpid()))
    # java is invoked directly: the main thread (which evaluates constant definitions) only gets a
    # big stack from -Xss on the command line, not from JAVA_TOOL_OPTIONS
    # (the default charset of this sandbox is POSIX: specifications, stimuli and traces are UTF-8)
    cmd = ["java", "-Xss1g", "-XX:+UseParallelGC", "-Dfile.encoding=UTF-8", "-Dstdout.encoding=UTF-8", "-Dsun.jnu.encoding=UTF-8"]
    if heap:
        cmd.append("-Xmx" + heap)
    if deque:
        cmd.append("-Dtlc2.tool.queue.IStateQueue=StateDeque")
    cmd += ["-cp", TLA_CP, "tlc2.TLC", "-workers", str(workers), "-metadir", meta, "-cleanup", "-noGenerateSpecTE", "-checkpoint", "0"]
    if coverage and not simulate:
        cmd += ["-coverage", "1"]
    if simulate:
        cmd += ["-simulate", simulate]
    cmd += (extra or []) + ["-config", cfg, module + ".tla"]
    e = dict(env or {})
    e["JAVA_TOOL_OPTIONS"] = "-Xss1g"
    try:
        rc, out, wall = run(cmd, env=e, cwd=SPEC, timeout=timeout)
    finally:
        shutil.rmtree(meta, ignore_errors=True)
    gen = dist = 0
    for m in _STATS.finditer(out):
        gen, dist = int(m.group(1)), int(m.group(2))
    return {"out": out, "generated": gen, "distinct": dist, "rc": rc, "wall": wall}


def tlc_model(module, cfg, env=None, workers=8, timeout=900, min_states=2, expect=None, coverage=False):
    """Model-check a bounded instance. Any invariant violation / error here is a *tool* failure:
    the design model does not depend on /repo."""
    r = tlc(module, cfg, env=env, workers=workers, timeout=timeout, coverage=coverage)
    ok = "Model checking completed. No error has been found." in r["out"]
    if not ok or r["distinct"] < min_states:
        raise ToolError("TLC model run %s/%s failed or was vacuous:\n%s" % (module, cfg, tail(r["out"], 60)))
    for needle in (expect or []):
        if needle not in r["out"]:
            raise ToolError("TLC model run %s/%s: expected output %r missing\n%s" % (module, cfg, needle, tail(r["out"], 40)))
    never = uncovered_actions(r["out"])
    r["never_taken"] = never
    return r


def uncovered_actions(out):
    """Names of actions whose coverage count is 0 (vacuity guard)."""
    res = []
    for m in re.finditer(r"^<(\w+) line \d+, col \d+ to line \d+, col \d+ of module (\w+)>: (\d+):(\d+)", out, re.M):
        if int(m.group(4)) == 0:
            res.append(m.group(1))
    return sorted(set(res))


def tail(s, n):
    return "\n".join(s.splitlines()[-n:])


_UNMATCHED = re.compile(r'<<\s*"UNMATCHED",\s*(\d+)', re.S)
_CHECKFAIL = re.compile(r'<<\s*"CHECK-FAILED",\s*"([^"]+)",\s*"([^"]+)",\s*(\d+)', re.S)


def tlc_trace(module, cfg, trace_path, env=None, timeout=1800, max_rejections=8, heap="6g", resync="flight"):
    """Validate an ndjson trace against a trace spec.  After a rejection the rest of the trace is
    still validated: validation restarts at the next flight (`Deliver` via the entry point) of the
    same run -- re-entering the run with a copy of its `Reset` event -- or at the next run
    (resync="reset"), or at the next event (resync="next").

    Returns dict(events, rejections=[{index, event, failed:[(prop,name)], out}], states, wall).
    """
    events = [l for l in open(trace_path) if l.strip()]
    n = len(events)
    rejections = []
    offset = 0          # 0-based index of the first real event of the current part
    prefix = []         # synthetic lines put in front of the current part
    states = 0
    wall = 0.0
    tmp = trace_path + ".part"
    try:
        while offset < n:
            part = trace_path
            if offset or prefix:
                with open(tmp, "w") as f:
                    f.writelines(prefix)
                    f.writelines(events[offset:])
                part = tmp
            e = dict(env or {})
            e["VERIF_TRACE"] = part
            r = tlc(module, cfg, env=e, workers=1, timeout=timeout, deque=True, heap=heap, coverage=False)
            states += r["distinct"]
            wall += r["wall"]
            out = r["out"]
            # clauses that failed on steps the trace nevertheless took (reported, not blocking)
            m0 = _UNMATCHED.search(out)
            k0 = int(m0.group(1)) if m0 else -1
            soft = {}
            for a, b, pos in _CHECKFAIL.findall(out):
                pos = int(pos)
                if pos != k0:
                    soft.setdefault(pos, [])
                    if (a, b) not in soft[pos]:
                        soft[pos].append((a, b))
            for pos in sorted(soft):
                ax = offset + pos - len(prefix)
                if 1 <= ax <= n:
                    rejections.append({"index": ax, "event": json.loads(events[ax - 1]), "failed": soft[pos],
                                       "out": "", "blocking": False})
            if "Model checking completed. No error has been found." in out:
                break
            m = _UNMATCHED.search(out)
            k = None
            if m:
                k = int(m.group(1))                     # 1-based index within this part
            elif "The error occurred when TLC was evaluating" in out or "Attempted to" in out:
                # the step for the event at position l could not even be evaluated (an operator of the specification is undefined on
                # what was observed): the event is not a step of the specification -- reported like an unmatched event
                ls = re.findall(r"^/\\ l = (\d+)", out, re.M)
                if ls:
                    k = int(ls[-1])
            if k is None:
                raise ToolError("trace validation %s failed without an UNMATCHED report:\n%s" % (module, tail(out, 60)))
            abs_ix = offset + k - len(prefix)           # 1-based index in the whole trace
            if abs_ix < 1 or abs_ix > n:
                raise ToolError("trace validation %s rejected a synthetic event:\n%s" % (module, tail(out, 40)))
            failed = [(a, b) for a, b, pos in _CHECKFAIL.findall(out) if int(pos) == k]
            rejections.append({"index": abs_ix, "event": json.loads(events[abs_ix - 1]), "failed": failed,
                               "out": tail(out, 40), "blocking": True})
            if len([x for x in rejections if x["blocking"]]) >= max_rejections:
                break
            nxt = abs_ix                                # 0-based index of the event after the rejected one
            prefix = []
            if resync == "reset":
                while nxt < n and '"ev":"Reset"' not in events[nxt]:
                    nxt += 1
            elif resync == "flight":
                while nxt < n and '"ev":"Reset"' not in events[nxt] and not (
                        '"ev":"Deliver"' in events[nxt] and '"via":"ep"' in events[nxt]):
                    nxt += 1
                if nxt < n and '"ev":"Reset"' not in events[nxt]:
                    back = nxt
                    while back >= 0 and '"ev":"Reset"' not in events[back]:
                        back -= 1
                    if back >= 0:
                        prefix = [events[back]]
            if nxt >= n:
                break
            offset = nxt
    finally:
        if os.path.exists(tmp):
            os.unlink(tmp)
    return {"events": n, "rejections": rejections, "states": states, "wall": wall}


# ----------------------------------------------------------------------------- findings / reporting

def load_findings():
    if not os.path.exists(FINDINGS):
        return []
    return json.load(open(FINDINGS)).get("findings", [])


def known_finding(prop, key):
    """A violation is suppressed only by an entry with status `known` whose key matches exactly."""
    for f in load_findings():
        if f.get("property") == prop and f.get("status") == "known" and f.get("key") == key:
            return f
    return None


class Report:
    """Collects violations of one property in one run and turns them into exit status/lines."""

    def __init__(self, prop):
        self.prop = prop
        self.violations = []      # (key, what, files)
        self.known = []
        if not os.environ.get("VERIF_KEEP_REPLAYS"):
            shutil.rmtree(os.path.join(REPLAYS, prop), ignore_errors=True)

    def violation(self, key, what, files=None):
        f = known_finding(self.prop, key)
        if f:
            if key not in [k for k, _ in self.known]:
                self.known.append((key, f.get("what", what)))
        else:
            self.violations.append((key, what, files or {}))

    def finish(self):
        rk = os.environ.get("VERIF_REPLAY_KEY")
        if rk:          # replay: only the recorded case matters
            self.violations = [v for v in self.violations if v[0] == rk]
            self.known = [k for k in self.known if k[0] == rk]
        for key, what in self.known:
            print("KNOWN-FINDING: property=%s %s [%s]" % (self.prop, what, key), flush=True)
        if not self.violations:
            return 0
        seen = set()
        for i, (key, what, files) in enumerate(self.violations):
            if key in seen:
                continue
            seen.add(key)
            d = os.path.join(REPLAYS, self.prop, "%03d-%s" % (i, re.sub(r"[^A-Za-z0-9_.-]+", "_", key)[:80]))
            os.makedirs(d, exist_ok=True)
            with open(os.path.join(d, "what.txt"), "w") as f:
                f.write("property=%s\nkey=%s\n%s\n" % (self.prop, key, what))
            for name, content in files.items():
                with open(os.path.join(d, name), "w") as f:
                    f.write(content if isinstance(content, str) else json.dumps(content, indent=1))
            log("violation of %s: %s" % (self.prop, what))
            print("VIOLATION property=%s replay=%s" % (self.prop, d), flush=True)
        return 1


def write_evidence(prop, tier, seed, coverage, wall, violations, level="model_checking", assumptions=None):
    ensure_dirs()
    ev = {
        "property_id": prop,
        "tier": tier,
        "seed": seed,
        "level": level,
        "coverage": coverage,
        "assumptions": assumptions or TRUSTED,
        "wall_s": round(wall, 2),
        "violations": violations,
    }
    tmp = os.path.join(EVIDENCE, prop + ".json.tmp")
    with open(tmp, "w") as f:
        json.dump(ev, f, indent=1)
    os.replace(tmp, os.path.join(EVIDENCE, prop + ".json"))


def read_ndjson(path):
    return [json.loads(l) for l in open(path) if l.strip()]


def write_ndjson(path, rows):
    with open(path, "w") as f:
        for r in rows:
            f.write(json.dumps(r, separators=(",", ":")) + "\n")


def write_if_changed(path, content):
    if os.path.exists(path) and open(path).read() == content:
        return False
    os.makedirs(os.path.dirname(path), exist_ok=True)
    with open(path, "w") as f:
        f.write(content)
    return True


# ----------------------------------------------------------------------------- corpus builds

def corpus_build(gdir, spans, timeout=3000):
    """Build a generated workspace; map compile errors back to generated programs.
    spans: {(shard, prog id): (first line, last line)} of each program in <shard>/src/main.rs.
    Returns (failed: {prog id: first error text}, unattributed error text or None)."""
    rc, out, _ = cargo(["build", "--keep-going", "--message-format=json"], gdir, check=False, timeout=timeout)
    failed = {}
    loose = []
    for line in out.splitlines():
        if not line.startswith("{"):
            continue
        try:
            m = json.loads(line)
        except ValueError:
            continue
        if m.get("reason") != "compiler-message" or m.get("message", {}).get("level") != "error":
            continue
        msg = m["message"]
        shard = m.get("target", {}).get("name", "")
        hit = None
        for sp in msg.get("spans", []):
            if sp.get("file_name", "").endswith("main.rs"):
                for (sh, pid), (a, b) in spans.items():
                    if sh == shard and a <= sp.get("line_start", 0) <= b:
                        hit = pid
                if hit:
                    break
        text = msg.get("rendered") or msg.get("message", "")
        if hit:
            failed.setdefault(hit, text)
        elif "aborting due to" not in text and "could not compile" not in text:
            loose.append(text)
    if rc != 0 and not failed and not loose:
        loose.append(out[-3000:])
    return failed, ("\n".join(loose) if loose else None)
