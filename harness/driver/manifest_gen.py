"""Regenerates /verif/MANIFEST.json from the table below (keeps it valid at all times)."""
import json
import os

VERIF = os.path.dirname(os.path.dirname(os.path.dirname(os.path.abspath(__file__))))

TRUST = ("TLC and the CommunityModules Json/IOUtils modules; rustc/cargo; serde, serde-json-wasm, serde-cw-value and cosmwasm-std "
         "for the encoding of individual argument values; cw-multi-test as the chain; the harness's exact JSON reader/tagger "
         "(unit-tested in setup) and the generator from TLC's program descriptions to Rust text; small-scope bounds stated in DESIGN.md")

CHECKS = {
    "C01": ("routing", "6 C01", "TLC model check of Runtime.tla (bounded MC_Routing) + trace validation of the compiled corpus: "
            "Encode/WrapperDecode events of every handler over all identifiers <= 4 (thorough 5) characters of {a,b,1,_}; the contract-level "
            "message judged as a message type of its kind (it accepts the message of every annotated method of every part)",
            "TLA+ spec + TLC, corpus compiled with the real macros, trace validation (Trace_Routing)"),
    "C02": ("routing", "6 C02", "TLC model check of the dispatch machine + validation of Deliver/Handler/Return events of every "
            "handler of the corpus through entry points and the multitest Contract impl; bridged dispatch on contracts with chain-custom types; "
            "every operation of the multitest histories runs the handler it names exactly once (handler invocations counted per chain)",
            "TLA+ spec + TLC, trace validation of echo-handler events"),
    "C03": ("routing", "6 C03", "TLC checks that first-match routing over published lists implies 'accepts iff exactly one part accepts' "
            "for all small programs; every document class delivered to the real contract-level message and each part, relation judged by TLC",
            "TLA+ spec + TLC, trace validation of WrapperDecode events"),
    "C04": ("routing", "6 C04", "TLC invariant C04_KindSeparation on the bounded model; every message of every kind delivered to every other "
            "entry point of programs with shared names/shapes, handler kinds judged by TLC",
            "TLA+ spec + TLC, trace validation of cross-kind deliveries"),
    "C05": ("routing+merge", "6 C05", "Merge.tla (the overlap scan as a state machine) model-checked exhaustively for all tuples of <=3 (thorough 4) "
            "sorted lists and every tuple replayed into the real assert_no_intersection; published lists of the compiled corpus compared with "
            "the specification's sorted wire-name sets",
            "TLA+ spec + TLC (exhaustive small scope), replay of TLC-enumerated inputs, trace validation"),
    "C06": ("static", "6 C06", "all 1024 combinations of overridden kinds x migrate x reply x replies feature x generic expanded by the real "
            "entry_points macro in-process (verif-hook), incl. overrides and handlers declared in the opposite order; set of emitted entry points and "
            "per-function token hashes judged by TLC against Static.tla; forwarding: the compiled routing corpus (override programs O1-O7: context and "
            "outcome forwarded, an overridden kind reaches the user's function through the multitest impl) and the legacy reply programs L1/L2 "
            "(without the replies feature every reply reaches the single reply method whole); the parameterless constructor of the generated "
            "programs numbers the values it builds: every call through an entry point runs on a value built for that call",
            "TLA+ spec + TLC (exhaustive configuration space), in-process expansion, compiled corpora, trace validation"),
    "C13": ("static", "6 C13", "attribute placements over item/handler/helper/parameters for the three macros plus every annotated item of the "
            "repository's tests and examples; re-emitted item vs input skeleton and determinism (in-process and across processes) judged by TLC",
            "TLA+ spec + TLC, in-process expansion of generated and real sources, trace validation"),
    "C15": ("static", "6 C15", "all assignments of type-parameter occurrence shapes to handler arguments and query responses of a generic contract, and of "
            "associated-type occurrences of an interface (types declared at the top of the trait or after the first / second method, bounded and unbounded); "
            "parameter lists and bounds of the generated message types judged by TLC against Used/KeptWheres",
            "TLA+ spec + TLC (exhaustive small scope), in-process expansion, trace validation"),
    "C17": ("static", "6 C17", "all ordered pairs of forwarding sites (type of a kind, handler variant, handler argument) with distinguishable marker "
            "attributes (plain, and wrapped in cfg_attr on arguments) for contracts and interfaces, two markers on one and the same variant / field; occurrences of each marker judged by TLC; effect: "
            "program A1 of the compiled routing corpus (arguments with a forwarded serde(default)): documents leaving them out are accepted through "
            "both paths and the handler is handed the default",
            "TLA+ spec + TLC (exhaustive small scope), in-process expansion, compiled corpus, trace validation"),
    "C07": ("reply", "6 C07", "ReplyRT.tla (build -> outcome -> dispatch) model-checked over the compiled reply tables; every reply "
            "(handler incl. unknown id x outcome x events x data class) dispatched by the real sv::dispatch_reply, reply entry point and multitest impl; "
            "routing, context, second parameter and pass-through arms judged by TLC (Trace_Reply); Chain.tla (transaction -> generated builder -> target -> "
            "the chain's decision to reply -> generated dispatcher -> commit / roll back) model-checked over the same tables and every "
            "(handler name x target kind x target behaviour) transaction run on a cw-multi-test chain with each compiled program as the caller (Trace_Chain)",
            "TLA+ spec + TLC, compiled reply corpus, trace validation"),
    "C08": ("reply", "6 C08", "ids, reply_on, kept message/gas limit, payload encoding of every generated builder over 5 receiver classes and the "
            "end-to-end delivery of payload values judged by TLC against Reply.tla; on the chain corpus (Chain.tla) the trigger is consumed by cw-multi-test: "
            "a reply arrives exactly for the outcomes the table covers, with the payload the builder was given",
            "TLA+ spec + TLC, compiled reply corpus, trace validation"),
    "C09": ("reply", "6 C09", "7 data modes x 6 data classes through the real dispatcher; extraction outcome and decoded value judged by TLC "
            "against Reply!Extract (with the documented nondeterminism); on the chain corpus the data arrives in the envelopes cw-multi-test makes "
            "(execute / instantiate responses, data longer than 127 bytes, present-but-empty data) and a data error fails the transaction",
            "TLA+ spec + TLC, compiled reply corpus, trace validation"),
    "C14": ("reply+routing+static", "6 C14", "TLC proves order independence of the specification's observable reply table over all permutations; "
            "all permutations of all small tables expanded in-process; declaration-order twins of reply and routing programs compiled and required "
            "to build and to fail exactly the same clauses; override attributes in both orders",
            "TLA+ lemma checked by TLC + in-process expansion + compiled twin programs validated against one order-free specification"),
    "C18": ("static+reply", "6 C18", "one rule-breaking edit per documented rule on valid hosts and every reply table of <= MaxM methods "
            "expanded in-process; accept/reject verdict judged by TLC against Static.tla / Reply!ValidTable",
            "TLA+ spec + TLC (exhaustive small reply tables), in-process expansion, trace validation"),
    "C10": ("routing", "6 C10", "RemoteSend (helper builds the message, the chain delivers it) model-checked with invariant C10_RemoteRoutesBack; executor, "
            "querier, instantiate-builder and admin helpers of every exec/query method of the corpus recorded (RemoteMsg) and their bodies delivered to "
            "the target's real entry points; TLC judges address, funds, kind, body and the flight",
            "TLA+ spec + TLC, compiled corpus, trace validation of RemoteMsg events and the flights they cause"),
    "C11": ("bridge", "6 C11", "Bridge.tla model-checked over all responses with <= MaxMsgs sub-messages x kinds x profiles x attributes x events x data (absent / present-but-empty / one zero byte / bytes); "
            "every one replayed into the real IntoResponse and (every third) through a custom-typed contract's entry points; TLC judges verdict, "
            "field-wise identity and the context the bridged handler saw",
            "TLA+ spec + TLC (exhaustive small scope), replay of TLC-enumerated responses, trace validation"),
    "C19": ("hygiene", "6 C19", "the behavioural specifications are name-free, so C19 is: every configuration builds and its traces are accepted unchanged; "
            "generic contract / interface with associated type under every single-letter and plain-word parameter name (and names of items the "
            "generated code imports or defines), the published schema name compared across names; routing and reply corpora "
            "rebuilt with the framework imported only under another crate name",
            "TLA+ spec + TLC enumeration of configurations; rustc name resolution + unchanged trace specifications as the oracle"),
    "C20": ("remote", "6 C20", "RemoteHandle.tla (encode/decode of [ty, owned, addr]) model-checked; every (type parameter, owned/borrowed, address) case "
            "replayed into the real Remote<T>; encoding, decoding of the prescribed literal (and of a document with further members), the encoding "
            "of the decoded handles and the schema judged by TLC",
            "TLA+ spec + TLC (exhaustive small scope), replay into the real type, trace validation"),
    "C12": ("multitest", "6 C12", "Multitest.tla (abstract chain: store / instantiate with options / exec / query / sudo / migrate, plus the harness's own helpers "
            "update_block / set_block / code_info) simulated by TLC into "
            "operation histories; each history applied through the generated proxies to one chain and as raw JSON to an identically seeded twin; "
            "after every operation views, results and the number of handler invocations of both chains are judged by TLC against each other and "
            "against the machine; a test purpose draws histories in which the same query is asked again after the chain alone has moved",
            "TLA+ spec + TLC simulation, twin-chain replay, trace validation (Trace_Multitest)"),
    "C16": ("routing", "6 C16", "query handlers with six response types (two structs, a one-element tuple, a pair, a vector of one-element tuples, an array; "
            "a quarter via resp= and an aliased result); response_schemas() of every part and "
            "of the contract-level message compared by TLC with the specification's table (for a generic contract: of two instantiations asked in one "
            "process), any-of arity with the number of parts and any-of members with the parts' own schemas through one schema generator",
            "TLA+ spec + TLC, compiled corpus, trace validation of Schemas events"),
}


def main():
    props = [json.loads(l) for l in open(os.path.join(VERIF, "properties.jsonl"))]
    checks = []
    na = []
    for p in props:
        pid = p["id"]
        if pid in CHECKS:
            eng, ref, text, tech = CHECKS[pid]
            checks.append({
                "property_id": pid,
                "quick_cmd": "bin/check %s quick" % pid,
                "thorough_cmd": "bin/check %s thorough" % pid,
                "evidence_file": "evidence/%s.json" % pid,
                "replay_cmd_template": "bin/check %s --replay {path}" % pid,
                "engine": eng,
                "level_claimed": {"category": "model_checking", "text": text, "design_ref": "DESIGN.md section " + ref},
                "level_note": TRUST,
                "technique": tech,
            })
        else:
            na.append({"property_id": pid, "reason": "check not built yet (machinery under construction; see DESIGN.md section 13 for the order)"})
    m = {
        "version": 1,
        "setup_cmd": "bin/setup",
        "hooks": {
            "guard": "verif-hook",
            "enable": "cargo feature `verif-hook` on sylvia-derive (test build only): SYLVIA_VERIF_HARNESS=/verif/harness/inproc/harness.rs "
                      "cargo test -p sylvia-derive --features verif-hook",
            "baseline_off_cmd": "cd /repo && cargo test --workspace --no-fail-fast --offline",
            "source_commits": HOOK_COMMITS,
            "add_only": True,
        },
        "engines": [
            {"name": "routing", "path": "spec/Runtime.tla, spec/MC_Routing.tla, spec/Trace_Routing.tla, harness/gen/routing.py, harness/rrt",
             "serves_properties": ["C01", "C02", "C03", "C04", "C05", "C10", "C12", "C16"],
             "kind_free_text": "TLC bounded model + generated corpus compiled against /repo + TLC trace validation"},
            {"name": "static", "path": "spec/Static.tla, spec/MC_Static.tla, spec/Trace_Static.tla, harness/gen/static.py, harness/inproc/harness.rs",
             "serves_properties": ["C06", "C13", "C15", "C17"],
             "kind_free_text": "TLC-enumerated source items expanded in-process by the real macro implementations + TLC trace validation"},
            {"name": "reply", "path": "spec/Reply.tla, spec/ReplyRT.tla, spec/MC_Reply.tla, spec/Trace_Reply.tla, spec/Trace_Tables.tla, harness/gen/replies.py, harness/rrt/src/reply.rs",
             "serves_properties": ["C07", "C08", "C09", "C14", "C18"],
             "kind_free_text": "TLC bounded reply machine + compiled reply corpus + in-process expansion of all small tables + TLC trace validation"},
            {"name": "bridge", "path": "spec/Bridge.tla, spec/MC_Bridge.tla, spec/Trace_Bridge.tla, harness/bridge", "serves_properties": ["C11"],
             "kind_free_text": "TLC exhaustive small scope + replay into IntoResponse and a custom-typed contract"},
            {"name": "remote", "path": "spec/RemoteHandle.tla, spec/MC_Remote.tla, spec/Trace_Remote.tla, harness/remote", "serves_properties": ["C20"],
             "kind_free_text": "TLC exhaustive small scope + replay into Remote<T>"},
            {"name": "hygiene", "path": "spec/Hygiene.tla, spec/Trace_Hygiene.tla, harness/gen/hygiene.py, harness/driver/checks/c19.py", "serves_properties": ["C19"],
             "kind_free_text": "parameter-name family + corpora rebuilt under a renamed dependency, validated by the unchanged trace specifications"},
            {"name": "merge", "path": "spec/Merge.tla, spec/MC_Merge.tla, spec/Trace_Merge.tla, harness/merge",
             "serves_properties": ["C05"], "kind_free_text": "TLC exhaustive small scope + replay into the real function"},
        ],
        "checks": checks,
        "notes": "All checks: exit 0 held / 1 violation (VIOLATION line + replay dir) / 2 tool error. known_findings.json lists recorded and fixed defects.",
        "not_applicable": na,
    }
    with open(os.path.join(VERIF, "MANIFEST.json"), "w") as f:
        json.dump(m, f, indent=1)


HOOK_COMMITS = ["133ed4a"]

if __name__ == "__main__":
    main()
