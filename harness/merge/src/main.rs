//! Replays TLC-enumerated tuples of sorted lists into the real
//! `sylvia::utils::assert_no_intersection` and records what it did.
//! usage: verif-merge <stimuli.ndjson> <trace.ndjson> <pool-index>
use serde_json::json;

/// Strictly byte-ordered pools that map the spec's abstract tokens 1..8 to strings;
/// chosen to exercise prefix / digit / underscore / case ordering corners.
const POOLS: [[&str; 8]; 4] = [
    ["a", "a1", "a_", "aa", "ab", "b", "b_c", "c"],
    ["A", "Z", "_", "_a", "a", "a_b", "ab", "b"],
    ["", "0", "1a", "a", "a1_b", "a_1b", "msg", "msg_a"],
    ["exec", "exec_a", "execa", "query", "query1", "query_", "sudo", "sudo_"],
];

fn call(lists: &[Vec<&'static str>]) {
    macro_rules! go {
        ($n:literal) => {{
            let arr: [&[&str]; $n] = std::array::from_fn(|i| lists[i].as_slice());
            sylvia::utils::assert_no_intersection::<$n>(arr)
        }};
    }
    match lists.len() {
        0 => go!(0),
        1 => go!(1),
        2 => go!(2),
        3 => go!(3),
        4 => go!(4),
        5 => go!(5),
        n => panic!("harness: unsupported N {n}"),
    }
}

fn main() {
    let a: Vec<String> = std::env::args().collect();
    let pool_ix: usize = a[3].parse().unwrap();
    let pool = POOLS[pool_ix % POOLS.len()];
    assert!(pool.windows(2).all(|w| w[0].as_bytes() < w[1].as_bytes()), "pool not strictly sorted");
    let stim = verif_rt::read_ndjson(&a[1]);
    verif_rt::open_trace(&a[2]);
    verif_rt::quiet_panics();
    for s in &stim {
        let toks: Vec<Vec<u64>> = serde_json::from_value(s["lists"].clone()).unwrap();
        let lists: Vec<Vec<&'static str>> =
            toks.iter().map(|l| l.iter().map(|t| pool[(*t - 1) as usize]).collect()).collect();
        let l2 = lists.clone();
        let (verdict, msg) = match verif_rt::catch(move || call(&l2)) {
            Ok(()) => ("ok", String::new()),
            Err(m) if m.contains("Message overlaps between interface and contract impl") => ("panic", m),
            Err(m) => ("crash", m),
        };
        verif_rt::emit(json!({"ev":"Merge","lists":toks,"pool":pool_ix,"strs":lists,"verdict":verdict,"msg":msg}));
    }
    verif_rt::close_trace();
}
