//! Recorder runtime for generated corpus programs (routing / dispatch / replies / remotes).
//!
//! Nothing here knows what the right answer is.  Echo handlers of generated programs call
//! `rec::handler` with their own literal name; the driver records what went in and what came out.

use serde_json::{json, Value};
use sylvia::cw_std::testing::{MockApi, MockQuerier, MockStorage};
use sylvia::cw_std::{
    coin, Addr, Binary, Coin, Env, MessageInfo, OwnedDeps, Response, StdError, Uint128,
};

pub use serde_json;
pub use verif_rt as rt;

pub mod reply;
pub mod remote;
pub mod mt;
pub mod chain;
pub use reply::{reply_main_with, ReplyVt};

// ------------------------------------------------------------------------------------------------
// Types shared by all generated programs

#[derive(thiserror::Error, Debug, PartialEq)]
pub enum HandlerErr {
    #[error("{0}")]
    Std(#[from] StdError),
    #[error("boom {0}")]
    Boom(u32),
}

/// The contract's declared error type; handlers return `HandlerErr`, so a conversion takes place.
#[derive(thiserror::Error, Debug, PartialEq)]
pub enum ContractError {
    #[error("{0}")]
    Std(#[from] StdError),
    #[error("handler: {0}")]
    Handler(#[from] HandlerErr),
}

#[cosmwasm_schema::cw_serde]
pub struct QResp {
    pub h: String,
    pub code: u32,
}

/// A second response type, so that the query response table has something to tell apart.
#[cosmwasm_schema::cw_serde]
pub struct QRespB {
    pub h: String,
    pub code: u32,
    pub extra: bool,
}

pub type QResultB<E> = Result<QRespB, E>;

// (unknown members are refused: a decode error then echoes the offending name, however long it is)
#[cosmwasm_schema::cw_serde]
#[serde(deny_unknown_fields)]
pub struct Nested {
    pub a: u32,
    pub b: String,
}

/// The decoded value written back with the chain's encoder (a value that cannot be written is an observation, not a failure
/// of the decoder that accepted the document).
pub fn reencode<T: serde::Serialize>(m: &T) -> Vec<u8> {
    sylvia::cw_std::to_json_vec(m).unwrap_or_else(|e| format!("<value cannot be encoded: {e}>").into_bytes())
}

/// The concrete type generic programs are instantiated with (family "generic"): an argument of type `GenT`.
#[cosmwasm_schema::cw_serde]
pub struct GenVal {
    pub g: u32,
}
impl sylvia::cw_std::CustomMsg for GenVal {}
/// A second type generic programs are used with: only their response tables are asked for it (C16).
#[cosmwasm_schema::cw_serde]
pub struct GenVal2 {
    pub g: u32,
    pub h: String,
}
impl sylvia::cw_std::CustomMsg for GenVal2 {}

/// The message type of user-supplied (overriding) entry points: any JSON object.
#[cosmwasm_schema::cw_serde]
pub struct OvMsg {}

pub type Deps = OwnedDeps<MockStorage, MockApi, MockQuerier>;

// ------------------------------------------------------------------------------------------------
// What echo handlers call

thread_local! { static BIRTHS: std::cell::Cell<u32> = const { std::cell::Cell::new(0) }; }
thread_local! { static RUNS: std::cell::Cell<u32> = const { std::cell::Cell::new(0) }; }
/// How many echo handlers have run on this thread so far (every handler reports itself first thing, see rec::handler_on).
pub fn runs() -> u32 {
    RUNS.with(|r| r.get())
}
/// The serial number of a contract value built by the parameterless constructor (1001, 1002, ...): the generated programs store it
/// in the contract, handlers report it -- every call through a generated entry point must run on a value built for that call (C06).
pub fn next_birth() -> u32 {
    BIRTHS.with(|b| {
        b.set(b.get() + 1);
        1000 + b.get()
    })
}

pub mod rec {
    use super::*;
    pub use crate::reply::{build_with, ctx_reply, ctx_reply_legacy, reply_proj, inst_data, reply_handler, result_full, result_text, Recv};
    pub use crate::chain::{chain_built, note_target};
    use sylvia::ctx::{ExecCtx, InstantiateCtx, MigrateCtx, QueryCtx, SudoCtx};
    use sylvia::cw_std::{QuerierWrapper, Storage};

    /// An argument's own JSON encoding (tagged projection of the bytes cosmwasm's encoder produces).
    pub fn enc<T: serde::Serialize>(v: &T) -> Value {
        match sylvia::cw_std::to_json_vec(v) {
            Ok(b) => rt::tag_text(&b),
            Err(e) => json!({"t":"x","v": e.to_string()}),
        }
    }

    fn token(s: &dyn Storage) -> String {
        s.get(b"verif_token").map(|b| String::from_utf8_lossy(&b).to_string()).unwrap_or_default()
    }
    fn nonce(q: &QuerierWrapper) -> String {
        q.query_balance("bank", "nonce").map(|c| c.amount.to_string()).unwrap_or_else(|e| format!("ERR {e}"))
    }
    fn funds(f: &[Coin]) -> Value {
        Value::Array(f.iter().map(|c| json!([c.denom, c.amount.to_string()])).collect())
    }
    fn base(env: &Env, s: &dyn Storage, q: &QuerierWrapper) -> serde_json::Map<String, Value> {
        let mut m = serde_json::Map::new();
        m.insert("height".into(), json!(env.block.height.to_string()));
        m.insert("contract".into(), json!(env.contract.address.to_string()));
        m.insert("token".into(), json!(token(s)));
        m.insert("nonce".into(), json!(nonce(q)));
        // the position of the transaction in its block, as far as the handler can see it ("-": none)
        m.insert("tx".into(), json!(env.transaction.as_ref().map(|t| t.index.to_string()).unwrap_or_else(|| "-".to_string())));
        m.insert("sender".into(), json!(""));
        m.insert("funds".into(), json!([]));
        m
    }
    pub fn ctx_exec(c: &ExecCtx) -> Value {
        let mut m = base(&c.env, c.deps.storage, &c.deps.querier);
        m.insert("sender".into(), json!(c.info.sender.to_string()));
        m.insert("funds".into(), funds(&c.info.funds));
        Value::Object(m)
    }
    pub fn ctx_instantiate(c: &InstantiateCtx) -> Value {
        let mut m = base(&c.env, c.deps.storage, &c.deps.querier);
        m.insert("sender".into(), json!(c.info.sender.to_string()));
        m.insert("funds".into(), funds(&c.info.funds));
        Value::Object(m)
    }
    pub fn ctx_query(c: &QueryCtx) -> Value {
        Value::Object(base(&c.env, c.deps.storage, &c.deps.querier))
    }
    pub fn ctx_sudo(c: &SudoCtx) -> Value {
        Value::Object(base(&c.env, c.deps.storage, &c.deps.querier))
    }
    pub fn ctx_migrate(c: &MigrateCtx) -> Value {
        Value::Object(base(&c.env, c.deps.storage, &c.deps.querier))
    }

    /// Context projection for user-supplied entry point functions (they get deps/env/info, not a ctx struct).
    pub fn ctx_raw(env: &Env, s: &dyn Storage, q: &QuerierWrapper, info: Option<&MessageInfo>) -> Value {
        let mut m = base(env, s, q);
        if let Some(i) = info {
            m.insert("sender".into(), json!(i.sender.to_string()));
            m.insert("funds".into(), funds(&i.funds));
        }
        Value::Object(m)
    }

    /// Called first thing by every echo handler, with its own literal identity.
    pub fn handler(prog: &str, part: &str, name: &str, kind: &str, args: Vec<(&str, Value)>, ctx: Value) {
        handler_on(0, prog, part, name, kind, args, ctx)
    }

    /// A handler reports that it runs: `tag` identifies the contract value it runs on (`self.tag`).
    pub fn handler_on(tag: u32, prog: &str, part: &str, name: &str, kind: &str, args: Vec<(&str, Value)>, ctx: Value) {
        super::RUNS.with(|r| r.set(r.get() + 1));
        let args: Vec<Value> = args.into_iter().map(|(n, j)| json!({"n": n, "json": j})).collect();
        rt::emit(json!({"ev":"Handler","prog":prog,"part":part,"name":name,"kind":kind,"args":args,"ctx":ctx,"tag":tag}));
    }

    /// The handler leaves its mark in the storage it was given (and counts the handlers that ran on it).
    pub fn touch(s: &mut dyn Storage, name: &str) {
        s.set(b"verif_mark", name.as_bytes());
        let n: u64 = s.get(b"verif_count").and_then(|b| String::from_utf8(b).ok()).and_then(|t| t.parse().ok()).unwrap_or(0);
        s.set(b"verif_count", (n + 1).to_string().as_bytes());
    }

    /// The funds the handler was handed, in the order it saw them.
    pub fn touch_funds(s: &mut dyn Storage, f: &[Coin]) {
        let t: Vec<String> = f.iter().map(|c| format!("{}{}", c.amount, c.denom)).collect();
        let text = if t.is_empty() { "-".to_string() } else { t.join(",") };      // (an empty value cannot be stored)
        s.set(b"verif_funds", text.as_bytes());
    }

    pub fn resp<E: From<HandlerErr>>(name: &str, code: u32, ok: bool) -> Result<Response, E> {
        if ok {
            Ok(Response::new().add_attribute("h", name).add_attribute("code", code.to_string()).set_data(name.as_bytes()))
        } else {
            Err(HandlerErr::Boom(code).into())
        }
    }
    /// The response of an instantiate handler: when it was handed `zeta` coins it also spawns a child contract
    /// (code id 1 of the multitest chains, see mt::seeded_app) -- the factory pattern; on the mock dependencies
    /// of the entry-point flights no `zeta` is ever sent.
    pub fn resp_spawning<E: From<HandlerErr>>(name: &str, code: u32, ok: bool, funds: &[sylvia::cw_std::Coin]) -> Result<Response, E> {
        let r: Response = resp(name, code, ok)?;
        if funds.iter().any(|c| c.denom == "zeta") {
            return Ok(r.add_message(sylvia::cw_std::WasmMsg::Instantiate { admin: None, code_id: 1, msg: sylvia::cw_std::Binary::from(b"{}".to_vec()),
                                                                         funds: vec![], label: "child".to_string() }));
        }
        Ok(r)
    }
    /// The value an echo query handler returns, in whatever response type it declares.
    pub trait QShape: Sized {
        fn make(name: &str, code: u32) -> Self;
    }
    impl QShape for QResp {
        fn make(name: &str, code: u32) -> Self {
            QResp { h: name.to_string(), code }
        }
    }
    impl QShape for QRespB {
        fn make(name: &str, code: u32) -> Self {
            QRespB { h: name.to_string(), code, extra: true }
        }
    }
    impl QShape for (QResp,) {
        fn make(name: &str, code: u32) -> Self {
            (QResp::make(name, code),)
        }
    }
    impl QShape for (QResp, u64) {
        fn make(name: &str, code: u32) -> Self {
            (QResp::make(name, code), code as u64)
        }
    }
    impl QShape for Vec<(u64,)> {
        fn make(_name: &str, code: u32) -> Self {
            vec![(code as u64,)]
        }
    }
    impl QShape for [QRespB; 2] {
        fn make(name: &str, code: u32) -> Self {
            [QRespB::make(name, code), QRespB::make(name, code)]
        }
    }
    impl QShape for sylvia::cw_std::Binary {
        fn make(_name: &str, _code: u32) -> Self {
            sylvia::cw_std::Binary::from(b"bin".to_vec())
        }
    }
    impl QShape for crate::GenVal {
        fn make(_name: &str, code: u32) -> Self {
            crate::GenVal { g: code }
        }
    }
    impl QShape for crate::GenVal2 {
        fn make(name: &str, code: u32) -> Self {
            crate::GenVal2 { g: code, h: name.to_string() }
        }
    }
    impl QShape for String {
        fn make(name: &str, _code: u32) -> Self {
            name.to_string()
        }
    }
    pub fn qresp_t<T: QShape, E: From<HandlerErr>>(name: &str, code: u32, ok: bool) -> Result<T, E> {
        if ok {
            Ok(T::make(name, code))
        } else {
            Err(HandlerErr::Boom(code).into())
        }
    }
    pub fn qresp<E: From<HandlerErr>>(name: &str, code: u32, ok: bool) -> Result<QResp, E> {
        qresp_t(name, code, ok)
    }
    pub fn qresp_b<E: From<HandlerErr>>(name: &str, code: u32, ok: bool) -> Result<QRespB, E> {
        qresp_t(name, code, ok)
    }

    /// C16 observation: the query response table of one message type (or of the contract-level one).
    thread_local! { static ANYOF_SAME: std::cell::Cell<bool> = const { std::cell::Cell::new(true) }; }
    /// The contract-level message `W` seen by a schema generator that may already have seen other types: is its schema the any-of of
    /// exactly `parts` (the schemas the same generator gives for the messages of the contract's parts)? The answer is attached to the
    /// next `Schemas` event of a contract.
    pub fn anyof_in<W: schemars::JsonSchema>(gen: &mut schemars::gen::SchemaGenerator, parts: Vec<schemars::schema::Schema>) {
        use schemars::schema::Schema;
        let s = gen.subschema_for::<W>();
        let prefix = gen.settings().definitions_path.clone();
        let obj = match s {
            Schema::Object(o) => match o.reference.as_ref().and_then(|r| r.strip_prefix(prefix.as_str()).map(String::from)) {
                Some(name) => match gen.definitions().get(&name) { Some(Schema::Object(d)) => Some(d.clone()), _ => None },
                None => Some(o),
            },
            _ => None,
        };
        let text = |x: &Schema| serde_json::to_string(x).unwrap_or_default();
        let mut want: Vec<String> = parts.iter().map(text).collect();
        let mut got: Vec<String> = obj.and_then(|o| o.subschemas).and_then(|s| s.any_of).unwrap_or_default().iter().map(text).collect();
        want.sort();
        got.sort();
        ANYOF_SAME.with(|c| c.set(want == got));
    }

    pub fn schemas(prog: &str, part: &str, table: Result<std::collections::BTreeMap<String, schemars::schema::RootSchema>, String>, anyof: i64) {
        schemas_at(prog, part, "GenVal", table, anyof)
    }
    /// The response table of `part` as a generic program used with the type `inst` publishes it.
    pub fn schemas_at(prog: &str, part: &str, inst: &str, table: Result<std::collections::BTreeMap<String, schemars::schema::RootSchema>, String>, anyof: i64) {
        let known = [("QResp", cosmwasm_schema::schema_for!(QResp)), ("QRespB", cosmwasm_schema::schema_for!(QRespB)),
                     ("Tup1", cosmwasm_schema::schema_for!((QResp,))), ("Tup2", cosmwasm_schema::schema_for!((QResp, u64))),
                     ("VecTup1", cosmwasm_schema::schema_for!(Vec<(u64,)>)), ("ArrB", cosmwasm_schema::schema_for!([QRespB; 2])),
                     ("Bin", cosmwasm_schema::schema_for!(sylvia::cw_std::Binary)), ("Str", cosmwasm_schema::schema_for!(String)),
                     ("GenVal", cosmwasm_schema::schema_for!(crate::GenVal)), ("GenVal2", cosmwasm_schema::schema_for!(crate::GenVal2))];
        match table {
            Ok(t) => {
                let rows: Vec<Value> = t.iter().map(|(k, v)| {
                    let ty = known.iter().find(|(_, s)| s == v).map(|(n, _)| *n).unwrap_or("other");
                    json!({"name": k, "ty": ty, "title": v.schema.metadata.as_ref().and_then(|m| m.title.clone()).unwrap_or_default()})
                }).collect();
                let same = part != "contract" || ANYOF_SAME.with(|c| c.replace(true));
                rt::emit(json!({"ev":"Schemas","prog":prog,"part":part,"inst":inst,"verdict":"ok","rows":rows,"anyof":anyof,"anyof_same":same}));
            }
            Err(e) => rt::emit(json!({"ev":"Schemas","prog":prog,"part":part,"inst":inst,"verdict":"err","rows":[],"anyof":anyof,"err":e})),
        }
    }

    /// C01 observation for one message value built by the generated program.
    #[allow(clippy::too_many_arguments)]
    pub fn encode<T>(prog: &str, part: &str, kind: &str, method: &str, val: u32, args: Vec<(&str, Value)>, msg: &T, spec_doc: &str)
    where
        T: serde::Serialize + serde::de::DeserializeOwned + PartialEq,
    {
        let bytes = sylvia::cw_std::to_json_vec(msg);
        let (tagged, roundtrip) = match &bytes {
            Ok(b) => (rt::tag_text(b), matches!(sylvia::cw_std::from_json::<T>(b), Ok(ref m) if m == msg)),
            Err(e) => (json!({"t":"x","v": e.to_string()}), false),
        };
        let spec_doc_eq = matches!(sylvia::cw_std::from_json::<T>(spec_doc.as_bytes()), Ok(ref m) if m == msg);
        let args: Vec<Value> = args.into_iter().map(|(n, j)| json!({"n": n, "json": j})).collect();
        rt::emit(json!({"ev":"Encode","prog":prog,"part":part,"kind":kind,"method":method,"val":val,
            "args":args,"json":tagged,"roundtrip":roundtrip,"spec_doc_eq":spec_doc_eq}));
    }
}

// ------------------------------------------------------------------------------------------------
// Projections of results

pub fn proj_err(e: &ContractError) -> Value {
    match e {
        ContractError::Handler(HandlerErr::Boom(c)) => json!({"class":"handler","code":c,"text":e.to_string()}),
        ContractError::Handler(HandlerErr::Std(s)) => json!({"class":"handler_std","code":0,"text":s.to_string()}),
        ContractError::Std(s) => json!({"class":"std","code":0,"text":s.to_string()}),
    }
}

pub fn proj_anyhow(e: &anyhow::Error) -> Value {
    if let Some(c) = e.downcast_ref::<ContractError>() {
        proj_err(c)
    } else if let Some(s) = e.downcast_ref::<StdError>() {
        json!({"class":"std","code":0,"text":s.to_string()})
    } else {
        json!({"class":"other","code":0,"text":e.to_string()})
    }
}

pub fn proj_resp<C: std::fmt::Debug>(r: &Response<C>) -> Value {
    let attrs: Vec<Value> = r.attributes.iter().map(|a| json!([a.key, a.value])).collect();
    let data = r.data.as_ref().map(|d| String::from_utf8_lossy(d.as_slice()).to_string()).unwrap_or_default();
    json!({"attrs": attrs, "data": data, "has_data": r.data.is_some(), "msgs": r.messages.len(), "events": r.events.len()})
}

/// What a call produced, in a shape TLC's Json module represents faithfully.
pub fn outcome_resp<C: std::fmt::Debug>(r: Result<Response<C>, Value>) -> (Value, Option<Vec<u8>>) {
    (outcome_resp_v(r), None)
}
fn outcome_resp_v<C: std::fmt::Debug>(r: Result<Response<C>, Value>) -> Value {
    match r {
        Ok(resp) => json!({"verdict":"ok","resp":proj_resp(&resp),"binary":{"t":"-"},"err":{"class":"","code":0,"text":""}}),
        Err(e) => json!({"verdict":"err","resp":{"attrs":[],"data":"","has_data":false,"msgs":0,"events":0},"binary":{"t":"-"},"err":e}),
    }
}
pub fn outcome_bin(r: Result<Binary, Value>) -> (Value, Option<Vec<u8>>) {
    let bytes = r.as_ref().ok().map(|b| b.to_vec());
    (outcome_bin_v(r), bytes)
}
fn outcome_bin_v(r: Result<Binary, Value>) -> Value {
    match r {
        Ok(b) => json!({"verdict":"ok","resp":{"attrs":[],"data":"","has_data":false,"msgs":0,"events":0},"binary":rt::tag_text(b.as_slice()),"err":{"class":"","code":0,"text":""}}),
        Err(e) => json!({"verdict":"err","resp":{"attrs":[],"data":"","has_data":false,"msgs":0,"events":0},"binary":{"t":"-"},"err":e}),
    }
}

// ------------------------------------------------------------------------------------------------
// Driver for routing stimuli

pub enum CallOut {
    /// the entry point's message type rejected the document (nothing was called)
    DecodeErr(String),
    /// the entry point / contract impl was called (second: the raw bytes a query returned)
    Done(Value, Option<Vec<u8>>),
    /// this program has no such entry point
    Absent,
}

pub type DecodeRes = Result<(&'static str, Vec<u8>), String>;

pub struct ProgVt {
    pub id: &'static str,
    /// (part, kind, published list)
    pub lists: fn() -> Vec<(&'static str, &'static str, Vec<String>)>,
    /// decode with the contract-level message of an enum kind: Ok((part the value belongs to, re-encoding))
    pub decode_wrapper: fn(&str, &[u8]) -> Option<DecodeRes>,
    /// decode with one part's own message type: Ok(re-encoding)
    pub decode_part: fn(&str, &str, &[u8]) -> Option<Result<Vec<u8>, String>>,
    /// decode with a struct message (instantiate / migrate)
    pub decode_struct: fn(&str, &[u8]) -> Option<Result<Vec<u8>, String>>,
    /// decode + call the generated entry point function
    pub call_ep: fn(&str, &mut Deps, Env, MessageInfo, &[u8]) -> CallOut,
    /// raw bytes into the generated `cw_multi_test::Contract` impl
    pub call_mt: fn(&str, &mut Deps, Env, MessageInfo, &[u8]) -> CallOut,
    pub encode_events: fn(),
    pub schema_events: Option<fn()>,
    pub parts: &'static [&'static str],
    /// remote helpers (executor / querier / instantiate builder / admin): emits RemoteMsg events and
    /// delivers what the helpers built; the argument is the first free sequence number
    pub remote_events: Option<fn(usize)>,
    /// multitest twin chains (C12): runs the histories of this program and emits MtOp events
    pub mt_histories: Option<fn(&Value)>,
    /// the builders behind the remote helpers (C10): interprets the runs the specification asks for,
    /// one event per builder call
    pub builder_events: Option<fn(&Value)>,
}

const HEIGHTS: [u64; 3] = [12345, 7, 999_999];
const SENDERS: [&str; 3] = ["alice", "bob", "carol"];

pub fn funds_pool(i: usize) -> Vec<Coin> {
    match i % 3 {
        0 => vec![],
        1 => vec![coin(5, "atom")],
        _ => vec![coin(2, "btc"), coin(1, "atom")],      // two coins, not in alphabetical order of their denominations
    }
}

pub fn make_ctx(seq: usize) -> (Deps, Env, MessageInfo, Value) {
    let ix = seq % 3;
    let nonce = 1000 + seq as u128;
    let mut deps = sylvia::cw_std::testing::mock_dependencies_with_balances(&[("bank", &[coin(nonce, "nonce")])]);
    let token = format!("t{seq}");
    use sylvia::cw_std::Storage;
    deps.storage.set(b"verif_token", token.as_bytes());
    let mut env = sylvia::cw_std::testing::mock_env();
    env.block.height = HEIGHTS[ix];
    env.contract.address = Addr::unchecked(format!("contract{ix}"));
    env.transaction = if seq % 4 == 3 { None } else { Some(sylvia::cw_std::TransactionInfo { index: 10 + (seq % 4) as u32 }) };
    let funds = funds_pool(seq / 3);
    let info = MessageInfo { sender: Addr::unchecked(SENDERS[ix]), funds: funds.clone() };
    let fj: Vec<Value> = funds.iter().map(|c| json!([c.denom, c.amount.to_string()])).collect();
    let envj = json!({"height": HEIGHTS[ix].to_string(), "contract": format!("contract{ix}"), "sender": SENDERS[ix],
        "funds": fj, "token": token, "nonce": Uint128::new(nonce).to_string(),
        "tx": env.transaction.as_ref().map(|t| t.index.to_string()).unwrap_or_else(|| "-".to_string())});
    (deps, env, info, envj)
}

pub(crate) fn mark(deps: &Deps) -> String {
    use sylvia::cw_std::Storage;
    deps.storage.get(b"verif_mark").map(|b| String::from_utf8_lossy(&b).to_string()).unwrap_or_default()
}

fn tokens_of(text: &str) -> std::collections::BTreeSet<String> {
    text.split(|c: char| !(c.is_alphanumeric() || c == '_')).filter(|t| !t.is_empty()).map(|t| t.to_string()).collect()
}

const ENUM_KINDS: [&str; 3] = ["exec", "query", "sudo"];

/// Run all stimuli of one program and record one event per specification action.
pub fn run_program(vt: &ProgVt, prog: &Value) {
    let id = vt.id;
    rt::emit(json!({"ev":"Reset","prog":id}));
    for (part, kind, listed) in (vt.lists)() {
        rt::emit(json!({"ev":"Lists","prog":id,"part":part,"kind":kind,"listed":listed}));
    }
    if let Err(m) = rt::catch(|| (vt.encode_events)()) {
        rt::emit(json!({"ev":"Panic","prog":id,"where":"encode","msg":m}));
    }
    if let Some(f) = vt.schema_events {
        if let Err(m) = rt::catch(f) {
            rt::emit(json!({"ev":"Panic","prog":id,"where":"schemas","msg":m}));
        }
    }
    let candidates: Vec<String> = prog["candidates"].as_array().map(|a| a.iter().filter_map(|v| v.as_str().map(String::from)).collect()).unwrap_or_default();
    let stims = prog["stim"].as_array().cloned().unwrap_or_default();
    for (seq, s) in stims.iter().enumerate() {
        let vias: Vec<String> = s.get("vias").and_then(|v| v.as_array()).map(|a| a.iter().filter_map(|x| x.as_str().map(String::from)).collect())
            .unwrap_or_else(|| vec!["ep".to_string(), "mt".to_string()]);
        let vr: Vec<&str> = vias.iter().map(|x| x.as_str()).collect();
        flight(vt, seq, s, &candidates, &vr);
    }
    if let Some(f) = vt.mt_histories {
        let h = prog.get("histories").cloned().unwrap_or(json!([]));
        if let Err(m) = rt::catch(move || f(&h)) {
            rt::emit(json!({"ev":"Panic","prog":id,"where":"multitest","msg":m}));
        }
    }
    if let Some(f) = vt.remote_events {
        if let Err(m) = rt::catch(move || f(stims.len())) {
            rt::emit(json!({"ev":"Panic","prog":id,"where":"remote","msg":m}));
        }
    }
    if let Some(f) = vt.builder_events {
        let runs = prog.get("builder").cloned().unwrap_or(json!([]));
        if let Err(m) = rt::catch(move || f(&runs)) {
            rt::emit(json!({"ev":"Panic","prog":id,"where":"builder","msg":m}));
        }
    }
}

/// One delivery of a document (stimulus `s`) through the given paths; returns the bytes a query returned on the
/// entry-point path (used by the remote-query forwarding).
pub fn flight(vt: &ProgVt, seq: usize, s: &Value, candidates: &[String], vias: &[&str]) -> Option<Result<Vec<u8>, String>> {
    let id = vt.id;
    let kind = s["ep"].as_str().unwrap_or("");
    let doc = s["doc"].as_str().unwrap_or("").as_bytes().to_vec();
    let mut ret = None;
    for via in vias {
        let via = *via;
        let (mut deps, env, info, envj) = make_ctx(seq);
        rt::emit(json!({"ev":"Deliver","prog":id,"seq":seq,"via":via,"ep":kind,"shape":s["shape"],"key":s["key"],
            "body":s["body"],"part":s["part"],"method":s["method"],"val":s["val"],"doc":rt::tag_text(&doc),"env":envj,
            "remote": s.get("remote").cloned().unwrap_or(json!(""))}));
        if via == "ep" {
            decode_events(vt, id, kind, &doc, candidates);
        }
        let f = if via == "ep" { vt.call_ep } else { vt.call_mt };
        let d2 = doc.clone();
        let out = std::panic::catch_unwind(std::panic::AssertUnwindSafe(|| f(kind, &mut deps, env, info, &d2)));
        match out {
            Ok(CallOut::Done(v, bytes)) => {
                let mut v = v;
                v["ev"] = json!("Return");
                v["prog"] = json!(id);
                v["called"] = json!(true);
                v["mark"] = json!(mark(&deps));
                if via == "ep" {
                    ret = Some(match bytes {
                        Some(b) => Ok(b),
                        None => Err(v["err"]["text"].as_str().unwrap_or("").to_string()),
                    });
                }
                rt::emit(v);
            }
            Ok(CallOut::DecodeErr(e)) => {
                if via == "ep" {
                    ret = Some(Err(e.clone()));
                }
                rt::emit(json!({"ev":"Return","prog":id,"called":false,"verdict":"err","mark":mark(&deps),
                    "resp":{"attrs":[],"data":"","has_data":false,"msgs":0,"events":0},"binary":{"t":"-"},
                    "err":{"class":"decode","code":0,"text":e}}));
            }
            Ok(CallOut::Absent) => {
                rt::emit(json!({"ev":"Absent","prog":id,"ep":kind}));
            }
            Err(e) => {
                let m = e.downcast_ref::<&str>().map(|s| s.to_string()).or_else(|| e.downcast_ref::<String>().cloned()).unwrap_or_default();
                rt::emit(json!({"ev":"Panic","prog":id,"where":"call","msg":m}));
            }
        }
    }
    ret
}

fn decode_events(vt: &ProgVt, id: &str, kind: &str, doc: &[u8], candidates: &[String]) {
    if ENUM_KINDS.contains(&kind) {
        let d = doc.to_vec();
        let w = rt::catch(move || (vt.decode_wrapper)(kind, &d));
        let mut parts = vec![];
        for p in vt.parts {
            let d = doc.to_vec();
            let r = rt::catch(move || (vt.decode_part)(p, kind, &d));
            let (verdict, encode) = match r {
                Ok(Some(Ok(b))) => ("ok", rt::tag_text(&b)),
                Ok(Some(Err(_))) => ("err", json!({"t":"-"})),
                Ok(None) => ("absent", json!({"t":"-"})),
                Err(_) => ("panic", json!({"t":"-"})),
            };
            parts.push(json!({"part":p,"verdict":verdict,"encode":encode}));
        }
        let ev = match w {
            Ok(Some(Ok((part, bytes)))) => json!({"ev":"WrapperDecode","prog":id,"verdict":"ok","part":part,
                "reencode":rt::tag_text(&bytes),"parts":parts,"mentions":[],"err":""}),
            Ok(Some(Err(e))) => {
                let toks = tokens_of(&e);
                let m: Vec<&String> = candidates.iter().filter(|c| toks.contains(*c)).collect();
                json!({"ev":"WrapperDecode","prog":id,"verdict":"err","part":"","reencode":{"t":"-"},"parts":parts,"mentions":m,"err":e})
            }
            Ok(None) => json!({"ev":"WrapperDecode","prog":id,"verdict":"absent","part":"","reencode":{"t":"-"},"parts":parts,"mentions":[],"err":""}),
            Err(m) => json!({"ev":"WrapperDecode","prog":id,"verdict":"panic","part":"","reencode":{"t":"-"},"parts":parts,"mentions":[],"err":m}),
        };
        rt::emit(ev);
    } else {
        let d = doc.to_vec();
        let r = rt::catch(move || (vt.decode_struct)(kind, &d));
        let (verdict, re) = match r {
            Ok(Some(Ok(b))) => ("ok", rt::tag_text(&b)),
            Ok(Some(Err(_))) => ("err", json!({"t":"-"})),
            Ok(None) => ("absent", json!({"t":"-"})),
            Err(_) => ("panic", json!({"t":"-"})),
        };
        rt::emit(json!({"ev":"StructDecode","prog":id,"verdict":verdict,"reencode":re}));
    }
}

/// Entry of every generated corpus binary: `bin <progs.ndjson> <trace.ndjson>`.
pub fn main_with(vts: &[ProgVt]) {
    let a: Vec<String> = std::env::args().collect();
    let progs = rt::read_ndjson(&a[1]);
    rt::open_trace(&a[2]);
    rt::quiet_panics();
    for vt in vts {
        if let Some(p) = progs.iter().find(|p| p["id"] == vt.id) {
            run_program(vt, p);
        }
    }
    rt::close_trace();
}
