//! Recorder pieces for the multitest twin chains (C12): the same history is applied through the generated
//! proxies to one chain and as raw JSON to a second, identically seeded chain; after every operation both
//! chains are projected into one `MtOp` event.
use serde_json::{json, Value};
use sylvia::cw_multi_test::{App as RawApp, AppResponse, IntoAddr};
use sylvia::cw_std::{coins, Addr, Binary, Coin, Empty};

use crate::{proj_anyhow, proj_err, rt, ContractError};

pub fn sender(name: &str) -> Addr {
    name.into_addr()
}

/// The contract a factory-style instantiate handler spawns (rec::resp_spawning): code id 1 of every chain.
pub mod noop {
    use sylvia::ctx::InstantiateCtx;
    use sylvia::cw_std::{Response, StdResult};
    pub struct Noop;
    #[sylvia::contract]
    impl Noop {
        pub const fn new() -> Self {
            Noop
        }
        #[sv::msg(instantiate)]
        fn instantiate(&self, _ctx: InstantiateCtx) -> StdResult<Response> {
            Ok(Response::new())
        }
    }
}

pub fn seeded_app() -> RawApp {
    let mut app = RawApp::new(|router, _api, storage| {
        for s in ["alice", "bob"] {
            router.bank.init_balance(storage, &sender(s), vec![sylvia::cw_std::coin(1_000, "atom"), sylvia::cw_std::coin(1_000, "zeta")]).unwrap();
        }
    });
    let id = app.store_code(Box::new(noop::Noop::new()));
    assert_eq!(id, 1);
    app
}

pub fn funds(n: u64) -> Vec<Coin> {
    match n {
        0 => vec![],
        7 => vec![sylvia::cw_std::coin(4, "zeta"), sylvia::cw_std::coin(3, "atom")],      // two coins, not in alphabetical order
        n => coins(n as u128, "atom"),
    }
}

fn bal(app: &RawApp, a: &Addr) -> String {
    app.wrap().query_balance(a, "atom").map(|c| c.amount.to_string()).unwrap_or_else(|e| format!("ERR {e}"))
}

/// What a chain looks like from the outside, as far as the contract under test is concerned.
pub fn view(app: &RawApp, contract: Option<&Addr>) -> Value {
    let mut v = json!({"exists": false, "code": "", "label": "", "admin": "", "mark": "", "count": "", "bal": "", "funds": "", "alice": bal(app, &sender("alice")), "bob": bal(app, &sender("bob"))});
    if let Some(c) = contract {
        let dump = app.dump_wasm_raw(c);
        let get = |k: &[u8]| dump.iter().find(|(kk, _)| kk.as_slice() == k).map(|(_, v)| String::from_utf8_lossy(v).to_string()).unwrap_or_default();
        let data = app.contract_data(c).ok();
        v["exists"] = json!(true);
        // (code id 1 of every chain is the child contract of mt::noop: the program's own codes are numbered from 1 again)
        v["code"] = json!(data.as_ref().map(|d| (d.code_id - 1).to_string()).unwrap_or_default());
        v["label"] = json!(data.as_ref().map(|d| d.label.clone()).unwrap_or_default());
        // the admin is reported by the name the history used for it (alice / bob), if it is one of them
        // (no admin: ""; the empty string as the admin: "<empty>")
        let admin = data.as_ref().and_then(|d| d.admin.as_ref().map(|a| if a.as_str().is_empty() { "<empty>".to_string() } else { a.to_string() })).unwrap_or_default();
        let name = ["alice", "bob"].iter().find(|n| sender(n).to_string() == admin).map(|n| n.to_string()).unwrap_or(admin);
        v["admin"] = json!(name);
        v["mark"] = json!(get(b"verif_mark"));
        v["count"] = json!(get(b"verif_count"));
        v["bal"] = json!(bal(app, c));
        v["funds"] = json!(get(b"verif_funds"));
        v["keys"] = json!(dump.len());
    }
    v
}

fn resp_proj(r: &AppResponse) -> Value {
    // wasm attributes the handler set (the `wasm` event), independent of the contract address
    let attrs: Vec<Value> = r.events.iter().filter(|e| e.ty == "wasm").flat_map(|e| e.attributes.iter())
        .filter(|a| a.key != "_contract_address").map(|a| json!([a.key, a.value])).collect();
    json!({"attrs": attrs, "event_types": r.events.iter().map(|e| e.ty.clone()).collect::<Vec<_>>(),
           "data": r.data.as_ref().map(|d| d.to_base64()).unwrap_or_default()})
}

pub fn res_proxy(r: Result<AppResponse, ContractError>) -> Value {
    match r {
        Ok(a) => json!({"ok": true, "kind": "resp", "resp": resp_proj(&a), "value": {"t":"-"}, "err": {"class":"","code":0,"text":""}}),
        Err(e) => json!({"ok": false, "kind": "err", "resp": {"attrs":[],"event_types":[],"data":""}, "value": {"t":"-"}, "err": proj_err(&e)}),
    }
}
pub fn res_raw(r: Result<AppResponse, anyhow::Error>) -> Value {
    match r {
        Ok(a) => json!({"ok": true, "kind": "resp", "resp": resp_proj(&a), "value": {"t":"-"}, "err": {"class":"","code":0,"text":""}}),
        Err(e) => json!({"ok": false, "kind": "err", "resp": {"attrs":[],"event_types":[],"data":""}, "value": {"t":"-"}, "err": proj_anyhow(&e)}),
    }
}
pub fn res_value(r: Result<Value, String>, code: u32) -> Value {
    match r {
        Ok(v) => json!({"ok": true, "kind": "value", "resp": {"attrs":[],"event_types":[],"data":""}, "value": v, "err": {"class":"","code":0,"text":""}}),
        Err(e) => {
            // cosmwasm_std's QuerierWrapper (which the proxies query through) wraps a contract's error text this way;
            // the raw query below reads the contract result itself
            let e = e.strip_prefix("Generic error: Querier contract error: ").map(String::from).unwrap_or(e);
            let mentions = e.contains(&format!("boom {code}"));
            json!({"ok": false, "kind": "err", "resp": {"attrs":[],"event_types":[],"data":""}, "value": {"t":"-"},
                   "err": {"class": if mentions { "handler_text" } else { "other" }, "code": if mentions { code } else { 0 }, "text": e}})
        }
    }
}

/// What the chain knows about a stored code id (code ids of the program under test are numbered from 1: code id 1 of the
/// chain is the child contract of `noop`).
pub fn code_info_json(c: &sylvia::cw_std::CodeInfoResponse, base: u64) -> Value {
    json!({"code_id": (c.code_id - base).to_string(), "creator": c.creator.to_string(), "checksum": c.checksum.to_hex()})
}

pub fn emit_op(prog: &str, hist: usize, step: usize, op: &Value, proxy_res: Value, raw_res: Value, proxy_view: Value, raw_view: Value, same_addr: bool) {
    let (m0, m1) = MARKS.with(|m| m.get());
    rt::emit(json!({"ev":"MtOp","prog":prog,"hist":hist,"step":step,"op":op,"panic":"","proxy":{"res":proxy_res,"view":proxy_view},
        "raw":{"res":raw_res,"view":raw_view},"same_addr":same_addr,"ran":{"proxy": m1 - m0, "raw": crate::runs() - m1}}));
}

thread_local! { static MARKS: std::cell::Cell<(u32, u32)> = const { std::cell::Cell::new((0, 0)) }; }
/// Handler invocations are counted per side of an operation: `mark_runs(0)` is called before the proxy call (and at the start of
/// every operation), `mark_runs(1)` between the proxy call and the raw submission; `emit_op` reads the counter a last time.
pub fn mark_runs(i: u8) {
    let now = crate::runs();
    MARKS.with(|m| if i == 0 { m.set((now, now)) } else { m.set((m.get().0, now)) });
}

/// Code under test panicked during operation `step` of a history (the rest of the history is not run).
pub fn emit_panic(prog: &str, hist: usize, step: usize, op: &Value, msg: &str) {
    rt::emit(json!({"ev":"MtOp","prog":prog,"hist":hist,"step":step,"op":op,"panic":msg,
        "proxy":{"res":{"ok":false,"kind":"panic"},"view":{}},"raw":{"res":{"ok":false,"kind":"panic"},"view":{}},"same_addr":false,"ran":{"proxy":0,"raw":0}}));
}

pub fn raw_query(app: &RawApp, contract: &Addr, doc: &str) -> Result<Value, String> {
    let req: sylvia::cw_std::QueryRequest<Empty> = sylvia::cw_std::WasmQuery::Smart { contract_addr: contract.to_string(), msg: Binary::from(doc.as_bytes().to_vec()) }.into();
    let raw = sylvia::cw_std::to_json_vec(&req).map_err(|e| e.to_string())?;
    match app.wrap().raw_query(&raw) {
        sylvia::cw_std::SystemResult::Ok(sylvia::cw_std::ContractResult::Ok(b)) => Ok(rt::tag_text(b.as_slice())),
        sylvia::cw_std::SystemResult::Ok(sylvia::cw_std::ContractResult::Err(e)) => Err(e),
        sylvia::cw_std::SystemResult::Err(e) => Err(e.to_string()),
    }
}

/// The specification's document as a serialisable value, for the chain's own `*_contract` operations: the exact JSON tree
/// (member order and the spelling of integers kept -- an integer wider than 64 bits stays an integer).
#[derive(Debug)]
pub struct ExactDoc(pub rt::XJ);

impl serde::Serialize for ExactDoc {
    fn serialize<S: serde::Serializer>(&self, ser: S) -> Result<S::Ok, S::Error> {
        ser_xj(&self.0, ser)
    }
}

struct XRef<'a>(&'a rt::XJ);
impl serde::Serialize for XRef<'_> {
    fn serialize<S: serde::Serializer>(&self, ser: S) -> Result<S::Ok, S::Error> {
        ser_xj(self.0, ser)
    }
}

fn ser_xj<S: serde::Serializer>(x: &rt::XJ, ser: S) -> Result<S::Ok, S::Error> {
    use serde::ser::{Error, SerializeMap, SerializeSeq};
    match x {
        rt::XJ::Null => ser.serialize_unit(),
        rt::XJ::Bool(b) => ser.serialize_bool(*b),
        rt::XJ::Str(s) => ser.serialize_str(s),
        rt::XJ::Num(n) => {
            if let Ok(v) = n.parse::<u64>() {
                ser.serialize_u64(v)
            } else if let Ok(v) = n.parse::<i64>() {
                ser.serialize_i64(v)
            } else if let Ok(v) = n.parse::<u128>() {
                ser.serialize_u128(v)
            } else if let Ok(v) = n.parse::<i128>() {
                ser.serialize_i128(v)
            } else {
                Err(S::Error::custom(format!("number {n} is not an integer the chain's encoder can write")))
            }
        }
        rt::XJ::Arr(a) => {
            let mut s = ser.serialize_seq(Some(a.len()))?;
            for e in a {
                s.serialize_element(&XRef(e))?;
            }
            s.end()
        }
        rt::XJ::Obj(o) => {
            let mut m = ser.serialize_map(Some(o.len()))?;
            for (k, v) in o {
                m.serialize_entry(k, &XRef(v))?;
            }
            m.end()
        }
    }
}

pub fn json_value(doc: &str) -> ExactDoc {
    ExactDoc(rt::parse_exact(doc).expect("document rendered by the generator is JSON"))
}
