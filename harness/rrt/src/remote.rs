//! Recorder pieces for the remote helpers (C10): executor, querier, instantiate builder, admin helpers.
use serde_json::{json, Value};
use sylvia::cw_std::{Addr, Coin, ContractResult, QuerierResult, StdResult, SystemResult, WasmMsg, WasmQuery};

use crate::{flight, rt, ProgVt};

fn funds_json(f: &[Coin]) -> Value {
    Value::Array(f.iter().map(|c| json!([c.denom, c.amount.to_string()])).collect())
}

fn args_json(args: Vec<(&str, Value)>) -> Vec<Value> {
    args.into_iter().map(|(n, j)| json!({"n": n, "json": j})).collect()
}

/// An executor helper returned `w`; record it and deliver its body to the target's execute entry point.
#[allow(clippy::too_many_arguments)]
pub fn exec(vt: &ProgVt, seq: usize, part: &str, method: &str, wire: &str, val: u32, handle: &str, handle_addr: &Addr,
            funds_set: &[Coin], args: Vec<(&str, Value)>, w: StdResult<WasmMsg>) {
    match w {
        Ok(WasmMsg::Execute { contract_addr, msg, funds }) => {
            rt::emit(json!({"ev":"RemoteMsg","prog":vt.id,"helper":"exec","part":part,"method":method,"val":val,"handle":handle,
                "verdict":"ok","handle_addr":handle_addr.to_string(),"addr":contract_addr,"funds_set":funds_json(funds_set),"funds":funds_json(&funds),
                "args":args_json(args),"body":rt::tag_text(msg.as_slice()),"kind":"execute","code_id":"","label":"","admin":"","salt":""}));
            let s = json!({"ep":"exec","shape":"obj1","key":wire,"body":"exact","part":part,"method":method,"val":val,
                "doc":String::from_utf8_lossy(msg.as_slice()),"remote":"exec"});
            flight(vt, seq, &s, &[], &["ep"]);
        }
        Ok(other) => rt::emit(json!({"ev":"RemoteMsg","prog":vt.id,"helper":"exec","part":part,"method":method,"val":val,"handle":handle,
            "verdict":"wrong_message","kind":format!("{other:?}").split(' ').next().unwrap_or(""),"handle_addr":handle_addr.to_string(),"addr":"",
            "funds_set":[],"funds":[],"args":[],"body":{"t":"-"},"code_id":"","label":"","admin":"","salt":""})),
        Err(e) => rt::emit(json!({"ev":"RemoteMsg","prog":vt.id,"helper":"exec","part":part,"method":method,"val":val,"handle":handle,
            "verdict":"err","kind":e.to_string(),"handle_addr":handle_addr.to_string(),"addr":"","funds_set":[],"funds":[],"args":[],
            "body":{"t":"-"},"code_id":"","label":"","admin":"","salt":""})),
    }
}

/// The wasm handler of the mock querier a query helper runs against: records the smart query and forwards it
/// to the target's query entry point.
#[allow(clippy::too_many_arguments)]
pub fn query_handler(vt: &ProgVt, seq: usize, part: &str, method: &str, wire: &str, val: u32, handle: &str, handle_addr: &str,
                     args: Vec<Value>, wq: &WasmQuery) -> QuerierResult {
    match wq {
        WasmQuery::Smart { contract_addr, msg } => {
            rt::emit(json!({"ev":"RemoteMsg","prog":vt.id,"helper":"query","part":part,"method":method,"val":val,"handle":handle,
                "verdict":"ok","handle_addr":handle_addr,"addr":contract_addr,"funds_set":[],"funds":[],
                "args":args,"body":rt::tag_text(msg.as_slice()),"kind":"smart","code_id":"","label":"","admin":"","salt":""}));
            let s = json!({"ep":"query","shape":"obj1","key":wire,"body":"exact","part":part,"method":method,"val":val,
                "doc":String::from_utf8_lossy(msg.as_slice()),"remote":"query"});
            match flight(vt, seq, &s, &[], &["ep"]) {
                Some(Ok(bytes)) => SystemResult::Ok(ContractResult::Ok(bytes.into())),
                Some(Err(e)) => SystemResult::Ok(ContractResult::Err(e)),
                None => SystemResult::Ok(ContractResult::Err("no answer".to_string())),
            }
        }
        other => {
            rt::emit(json!({"ev":"RemoteMsg","prog":vt.id,"helper":"query","part":part,"method":method,"val":val,"handle":handle,
                "verdict":"wrong_message","kind":format!("{other:?}").split(' ').next().unwrap_or(""),"handle_addr":handle_addr,"addr":"",
                "funds_set":[],"funds":[],"args":[],"body":{"t":"-"},"code_id":"","label":"","admin":"","salt":""}));
            SystemResult::Ok(ContractResult::Err("not a smart query".to_string()))
        }
    }
}

/// What the query helper handed back to its caller.
pub fn query_result(vt: &ProgVt, part: &str, method: &str, val: u32, r: Result<Value, String>) {
    let (verdict, value, err) = match r {
        Ok(v) => ("ok", v, String::new()),
        Err(e) => ("err", json!({"t":"-"}), e),
    };
    rt::emit(json!({"ev":"RemoteQueryReturn","prog":vt.id,"part":part,"method":method,"val":val,"verdict":verdict,"value":value,"err":err}));
}

/// An instantiate builder produced `w`; record it and deliver its body to the instantiate entry point.
#[allow(clippy::too_many_arguments)]
pub fn instantiate(vt: &ProgVt, seq: usize, val: u32, variant: &str, code_id: u64, label_set: &str, admin_set: &str, funds_set: &[Coin],
                   salt_set: &str, args: Vec<(&str, Value)>, w: StdResult<WasmMsg>) {
    let (kind, code, msg, admin, label, funds, salt) = match w {
        Ok(WasmMsg::Instantiate { code_id, msg, admin, label, funds }) => ("instantiate", code_id, msg, admin, label, funds, String::new()),
        Ok(WasmMsg::Instantiate2 { code_id, msg, admin, label, funds, salt }) => ("instantiate2", code_id, msg, admin, label, funds, salt.to_base64()),
        Ok(_) | Err(_) => {
            rt::emit(json!({"ev":"RemoteMsg","prog":vt.id,"helper":"instantiate","part":"own","method":"","val":val,"handle":variant,"verdict":"err",
                "kind":"","handle_addr":"","addr":"","funds_set":[],"funds":[],"args":[],"body":{"t":"-"},"code_id":"","label":"","admin":"","salt":""}));
            return;
        }
    };
    rt::emit(json!({"ev":"RemoteMsg","prog":vt.id,"helper":"instantiate","part":"own","method":"","val":val,"handle":variant,"verdict":"ok",
        "kind":kind,"handle_addr":"","addr":"","funds_set":funds_json(funds_set),"funds":funds_json(&funds),"args":args_json(args),
        "body":rt::tag_text(msg.as_slice()),"code_id":code.to_string(),"code_id_set":code_id.to_string(),
        "label":label,"label_set":label_set,"admin":admin.unwrap_or_default(),"admin_set":admin_set,"salt":salt,"salt_set":salt_set}));
    let s = json!({"ep":"instantiate","shape":"flat","key":"instantiate","body":"exact","part":"own","method":"","val":val,
        "doc":String::from_utf8_lossy(msg.as_slice()),"remote":"instantiate"});
    flight(vt, seq, &s, &[], &["ep"]);
}

pub fn admin(vt: &ProgVt, helper: &str, handle_addr: &Addr, admin_set: &str, w: WasmMsg) {
    let (kind, addr, admin) = match w {
        WasmMsg::UpdateAdmin { contract_addr, admin } => ("update_admin", contract_addr, admin),
        WasmMsg::ClearAdmin { contract_addr } => ("clear_admin", contract_addr, String::new()),
        _ => ("other", String::new(), String::new()),
    };
    rt::emit(json!({"ev":"RemoteMsg","prog":vt.id,"helper":helper,"part":"","method":"","val":0,"handle":"contract","verdict":"ok","kind":kind,
        "handle_addr":handle_addr.to_string(),"addr":addr,"funds_set":[],"funds":[],"args":[],"body":{"t":"-"},
        "code_id":"","label":"","admin":admin,"admin_set":admin_set,"salt":""}));
}

/// The coins of a funds code of the builder model (spec/BuilderOps.tla, FundsOf).
pub fn builder_funds(code: &str) -> Vec<Coin> {
    match code {
        "0" => vec![],
        "1" => vec![sylvia::cw_std::coin(5, "atom")],
        _ => vec![sylvia::cw_std::coin(1, "zeta"), sylvia::cw_std::coin(2, "atom")],
    }
}

/// The runs of a builder the specification asks for: (target, [(field, value)], fin).
pub fn builder_runs(runs: &Value) -> Vec<(String, Vec<(String, String)>, String)> {
    let s = |v: &Value| v.as_str().unwrap_or("").to_string();
    runs.as_array().map(|a| a.iter().map(|r| {
        let sets = r["sets"].as_array().map(|x| x.iter().map(|q| (s(&q["f"]), s(&q["v"]))).collect()).unwrap_or_default();
        (s(&r["target"]), sets, s(&r["fin"]))
    }).collect()).unwrap_or_default()
}

pub fn builder_new(vt: &ProgVt, target: &str) {
    rt::emit(json!({"ev":"BuilderNew","prog":vt.id,"target":target}));
}

pub fn builder_set(vt: &ProgVt, f: &str, v: &str) {
    rt::emit(json!({"ev":"BuilderSet","prog":vt.id,"f":f,"v":v}));
}

/// A builder built `w`: one event with what the message carries.
pub fn builder_build(vt: &ProgVt, fin: &str, handle_addr: &str, code_id_set: u64, salt_set: &str, w: StdResult<WasmMsg>) {
    let base = |verdict: &str, kind: &str| json!({"ev":"BuilderBuild","prog":vt.id,"fin":fin,"verdict":verdict,"kind":kind,
        "handle_addr":handle_addr,"addr":"","funds":[],"label":"","admin":"","salt":"","salt_set":salt_set,
        "code_id":"","code_id_set":code_id_set.to_string()});
    let mut e;
    match w {
        Ok(WasmMsg::Execute { contract_addr, funds, .. }) => {
            e = base("ok", "execute");
            e["addr"] = json!(contract_addr);
            e["funds"] = funds_json(&funds);
        }
        Ok(WasmMsg::Instantiate { code_id, admin, label, funds, .. }) => {
            e = base("ok", "instantiate");
            e["code_id"] = json!(code_id.to_string());
            e["admin"] = json!(admin.unwrap_or_default());
            e["label"] = json!(label);
            e["funds"] = funds_json(&funds);
        }
        Ok(WasmMsg::Instantiate2 { code_id, admin, label, funds, salt, .. }) => {
            e = base("ok", "instantiate2");
            e["code_id"] = json!(code_id.to_string());
            e["admin"] = json!(admin.unwrap_or_default());
            e["label"] = json!(label);
            e["funds"] = funds_json(&funds);
            e["salt"] = json!(salt.to_base64());
        }
        Ok(other) => e = base("wrong_message", format!("{other:?}").split(' ').next().unwrap_or("")),
        Err(err) => e = base("err", &err.to_string()),
    }
    rt::emit(e);
}
