//! Driver and recorder pieces for the reply corpus (C07, C08, C09, C14).
use serde_json::{json, Value};
use sylvia::cw_std::{
    coins, to_json_binary, BankMsg, Binary, CosmosMsg, DepsMut, Empty, Env, Event, Reply, ReplyOn, Response, SubMsg,
    SubMsgResponse, SubMsgResult, WasmMsg,
};

use crate::{rt, Nested};

pub type BuildRes = Option<Result<(SubMsg<Empty>, bool, Vec<Value>), String>>;

pub struct ReplyVt {
    pub id: &'static str,
    /// (handler name, generated id constant)
    pub ids: fn() -> Vec<(&'static str, u64)>,
    /// build a sub-message for handler h from receiver class recv with payload value set `val`
    pub build: fn(&str, &str, u32) -> BuildRes,
    /// via "fn" (sv::dispatch_reply) | "ep" (entry_points::reply) | "mt" (multitest Contract impl)
    pub dispatch: fn(&str, DepsMut, Env, Reply) -> Result<Response, Value>,
    /// a document delivered to the entry point of another kind ("exec" | "query" | "sudo"): (decoded by the contract-level message, call ok)
    pub probe: fn(&str, DepsMut, Env, &[u8]) -> (bool, bool),
    /// the contract as the multitest chain stores it (programs with a `fire` handler: chain.rs)
    pub boxed: Option<fn() -> Box<dyn sylvia::cw_multi_test::Contract<Empty, Empty>>>,
}

fn reply_on_text(r: &ReplyOn) -> &'static str {
    match r {
        ReplyOn::Always => "always",
        ReplyOn::Success => "success",
        ReplyOn::Error => "error",
        ReplyOn::Never => "never",
    }
}

fn wasm_msg() -> WasmMsg {
    WasmMsg::Execute { contract_addr: "target".to_string(), msg: Binary::from(b"{\"x\":{}}".to_vec()), funds: coins(3, "atom") }
}

fn proto_bytes_field(tag: u8, data: &[u8]) -> Vec<u8> {
    assert!(data.len() < 128);
    let mut v = vec![tag, data.len() as u8];
    v.extend_from_slice(data);
    v
}

/// The bytes of each data class (DESIGN C09); crafted here, judged by the specification.
pub fn data_bytes(class: &str) -> Option<Binary> {
    let good_json = sylvia::cw_std::to_json_vec(&Nested { a: 1, b: "n".to_string() }).unwrap();
    match class {
        "absent" => None,
        "good" => Some(Binary::from(proto_bytes_field(0x0a, &good_json))),
        "good_inst" => {
            let mut v = proto_bytes_field(0x0a, b"addr1");
            v.extend(proto_bytes_field(0x12, &good_json));
            Some(Binary::from(v))
        }
        "empty_env" => Some(Binary::from(Vec::<u8>::new())),
        "bad_env" => Some(Binary::from(vec![0xff, 0xff, 0xff])),
        "bare_json" => Some(Binary::from(good_json)),
        // an execute envelope whose JSON has an unknown member with a long name of three-byte characters after 0..3 one-byte
        // characters: whatever byte offset an error text about it is cut at, one of the four has a character straddling it
        c if c.starts_with("bad_json_u") => {
            let pad = "a".repeat(c[10..].parse::<usize>().unwrap_or(0));
            let j = format!("{{\"{}{}\":1}}", pad, "\u{6570}".repeat(80));
            Some(Binary::from(crate::chain::proto_field(0x0a, j.as_bytes())))
        }
        "bad_json" => Some(Binary::from(proto_bytes_field(0x0a, b"not json"))),
        _ => None,
    }
}

fn events(n: u64) -> Vec<Event> {
    // (like the events of a real chain every event carries an attribute with a reserved, underscore-prefixed key)
    (0..n).map(|i| Event::new(format!("ev{i}")).add_attribute("_contract_address", format!("c{i}")).add_attribute("k", format!("v{i}"))).collect()
}

fn resp_json(r: &Result<Response, Value>) -> Value {
    match r {
        Ok(resp) => {
            let evs: Vec<Value> = resp.events.iter().map(|e| json!(e.ty)).collect();
            let evs_full: Vec<Value> = resp.events.iter().map(|e| json!({"ty": e.ty, "attrs": e.attributes.iter().map(|a| json!([a.key, a.value])).collect::<Vec<_>>()})).collect();
            let attrs: Vec<Value> = resp.attributes.iter().map(|a| json!([a.key, a.value])).collect();
            let data = resp.data.as_ref().map(|d| d.to_base64()).unwrap_or_default();
            json!({"verdict":"ok","attrs":attrs,"events":evs,"events_full":evs_full,"has_data":resp.data.is_some(),"data":data,"msgs":resp.messages.len(),
                   "err":{"class":"","code":0,"text":""}})
        }
        Err(e) => json!({"verdict":"err","attrs":[],"events":[],"events_full":[],"has_data":false,"data":"","msgs":0,"err":e}),
    }
}

pub fn run_reply_program(vt: &ReplyVt, prog: &Value) {
    let id = vt.id;
    rt::emit(json!({"ev":"Reset","prog":id}));
    let ids: Vec<Value> = (vt.ids)().into_iter().map(|(h, n)| json!({"h":h,"id":n.to_string()})).collect();
    rt::emit(json!({"ev":"ReplyIds","prog":id,"ids":ids}));
    let stims = prog["stim"].as_array().cloned().unwrap_or_default();
    for (seq, s) in stims.iter().enumerate() {
        let op = s["op"].as_str().unwrap_or("");
        let h = s["h"].as_str().unwrap_or("");
        let recv = s["recv"].as_str().unwrap_or("");
        let val = s["val"].as_u64().unwrap_or(0) as u32;
        if op == "build" {
            build_event(vt, id, seq, h, recv, val);
            continue;
        }
        // a reply: for a known handler, id and payload are taken from the sub-message the builder returns
        let (rid, payload) = if h == "?" {
            ("9999".to_string(), Binary::default())
        } else {
            match build_event(vt, id, seq, h, "wasm", val) {
                Some(sm) => (sm.id.to_string(), sm.payload),
                None => continue,
            }
        };
        // a reply that did not come from the builder: same id, an empty or a garbage payload
        let pay = s["pay"].as_str().unwrap_or("built");
        let payload = match pay {
            "empty" => Binary::default(),
            "garbage" => Binary::from(b"\xff{not json".to_vec()),
            _ => payload,
        };
        let nev = s["events"].as_u64().unwrap_or(0);
        let class = s["class"].as_str().unwrap_or("absent");
        let result_ok = s["result"] == "ok";
        for via in ["fn", "ep", "mt"] {
            let (mut deps, env, _info, envj) = crate::make_ctx(seq);
            #[allow(deprecated)]
            let result = if result_ok {
                // a reply with events also carries a message response (whose value differs from the data)
                SubMsgResult::Ok(SubMsgResponse { events: events(nev), data: data_bytes(class),
                    msg_responses: if nev > 0 { vec![sylvia::cw_std::MsgResponse { type_url: "/verif.Msg".to_string(), value: Binary::from(b"mr".to_vec()) }] } else { vec![] } })
            } else {
                SubMsgResult::Err(format!("sub failed {seq}"))
            };
            let gas = 1000 + seq as u64;
            let reply = Reply { id: rid.parse().unwrap(), payload: payload.clone(), gas_used: gas, result };
            rt::emit(json!({"ev":"Reply","prog":id,"seq":seq,"via":via,"h":h,"pay":pay,"id":rid,"result":s["result"],"events":nev,"msgresp": if result_ok && nev > 0 { 1 } else { 0 },
                "class": if result_ok { class } else { "absent" }, "data": data_bytes(if result_ok { class } else { "absent" }).map(|b| b.to_base64()).unwrap_or_default(),
                "err_text": format!("sub failed {seq}"), "gas_used": gas.to_string(), "payload": payload.to_base64(), "env": envj}));
            let f = vt.dispatch;
            let out = std::panic::catch_unwind(std::panic::AssertUnwindSafe(|| f(via, deps.as_mut(), env, reply)));
            match out {
                Ok(r) => {
                    let mut v = resp_json(&r);
                    v["ev"] = json!("ReplyReturn");
                    v["prog"] = json!(id);
                    v["mark"] = json!(crate::mark(&deps));
                    // relation between two observations: does the returned error carry the sub-message's error?
                    let sub_err = format!("sub failed {seq}");
                    v["err_mentions_sub_error"] = json!(v["err"]["text"].as_str().map(|t| t.contains(&sub_err)).unwrap_or(false));
                    rt::emit(v);
                }
                Err(_) => rt::emit(json!({"ev":"Panic","prog":id,"where":"dispatch_reply","msg":"panic"})),
            }
        }
    }
    probes(vt, prog);
}

/// C04 on the reply corpus: documents named after the reply methods and handler names, with a reply (or nothing) as their body,
/// delivered to the execute, query and sudo entry points.
fn probes(vt: &ReplyVt, prog: &Value) {
    let id = vt.id;
    let mut names: Vec<String> = prog["methods"].as_array().cloned().unwrap_or_default().iter().filter_map(|m| m["name"].as_str().map(String::from)).collect();
    names.extend(prog["handlers"].as_array().cloned().unwrap_or_default().iter().filter_map(|h| h["h"].as_str().map(String::from)));
    names.push("reply".to_string());
    names.push("fire".to_string());
    names.sort();
    names.dedup();
    #[allow(deprecated)]
    let reply = Reply { id: 0, payload: Binary::default(), gas_used: 7, result: SubMsgResult::Ok(SubMsgResponse { events: vec![], data: None, msg_responses: vec![] }) };
    let reply_json = String::from_utf8(sylvia::cw_std::to_json_vec(&reply).unwrap_or_default()).unwrap_or_default();
    for key in &names {
        for kind in ["exec", "query", "sudo"] {
            for (bname, body) in [("reply", format!("{{\"reply\":{reply_json}}}")), ("under", format!("{{\"_reply\":{reply_json}}}")), ("empty", "{}".to_string())] {
                let doc = format!("{{\"{key}\":{body}}}");
                let (mut deps, env, _info, _envj) = crate::make_ctx(0);
                rt::emit(json!({"ev":"Probe","prog":id,"kind":kind,"key":key,"body":bname}));
                let f = vt.probe;
                let out = std::panic::catch_unwind(std::panic::AssertUnwindSafe(|| f(kind, deps.as_mut(), env, doc.as_bytes())));
                match out {
                    Ok((decoded, ok)) => rt::emit(json!({"ev":"ProbeReturn","prog":id,"kind":kind,"key":key,"body":bname,"decoded":decoded,"ok":ok})),
                    Err(_) => rt::emit(json!({"ev":"Panic","prog":id,"where":"probe","msg":"panic"})),
                }
            }
        }
    }
}

fn build_event(vt: &ReplyVt, id: &str, seq: usize, h: &str, recv: &str, val: u32) -> Option<SubMsg<Empty>> {
    let b = vt.build;
    let (hh, rr) = (h.to_string(), recv.to_string());
    let r = rt::catch(move || b(&hh, &rr, val));
    match r {
        Ok(Some(Ok((sm, msg_eq, pay)))) => {
            rt::emit(json!({"ev":"SubMsgBuilt","prog":id,"seq":seq,"h":h,"recv":recv,"verdict":"ok","id":sm.id.to_string(),
                "reply_on":reply_on_text(&sm.reply_on),"gas_limit":sm.gas_limit.map(|g| g.to_string()).unwrap_or_default(),
                "msg_eq":msg_eq,"payload":sm.payload.to_base64(),"payload_json":rt::tag_text(sm.payload.as_slice()),"pay_vals":pay}));
            Some(sm)
        }
        Ok(Some(Err(e))) => {
            rt::emit(json!({"ev":"SubMsgBuilt","prog":id,"seq":seq,"h":h,"recv":recv,"verdict":"err","id":"","reply_on":"","gas_limit":"",
                "msg_eq":false,"payload":"","payload_json":{"t":"-"},"pay_vals":[],"err":e}));
            None
        }
        Ok(None) => {
            rt::emit(json!({"ev":"SubMsgBuilt","prog":id,"seq":seq,"h":h,"recv":recv,"verdict":"absent","id":"","reply_on":"","gas_limit":"",
                "msg_eq":false,"payload":"","payload_json":{"t":"-"},"pay_vals":[]}));
            None
        }
        Err(m) => {
            rt::emit(json!({"ev":"Panic","prog":id,"where":"build","msg":m}));
            None
        }
    }
}

pub fn reply_main_with(vts: &[ReplyVt]) {
    let a: Vec<String> = std::env::args().collect();
    let progs = rt::read_ndjson(&a[1]);
    rt::open_trace(&a[2]);
    rt::quiet_panics();
    let chain = a.get(3).map(|m| m == "chain").unwrap_or(false);
    for vt in vts {
        if let Some(p) = progs.iter().find(|p| p["id"] == vt.id) {
            if chain {
                crate::chain::run_chain_program(vt, p);
            } else {
                run_reply_program(vt, p);
            }
        }
    }
    rt::close_trace();
}

// ---- what generated reply programs call -------------------------------------------------------

pub enum Recv {
    Sub(SubMsg<Empty>),
    Wasm(WasmMsg),
    Cosmos(CosmosMsg<Empty>),
}

/// Make the receiver of class `recv`, apply the generated builder, and compare what must be kept.
pub fn build_with(
    recv: &str,
    pay: Vec<Value>,
    f: impl FnOnce(Recv) -> sylvia::cw_std::StdResult<SubMsg<Empty>>,
) -> Result<(SubMsg<Empty>, bool, Vec<Value>), String> {
    let bank: CosmosMsg<Empty> = CosmosMsg::Bank(BankMsg::Send { to_address: "bob".to_string(), amount: coins(1, "atom") });
    let (r, expect_msg, expect_gas): (Recv, CosmosMsg<Empty>, Option<u64>) = match recv {
        _ if recv.starts_with("chain|") => {
            let (r, m) = crate::chain::chain_recv(recv).ok_or_else(|| format!("bad receiver {recv}"))?;
            (r, m, None)
        }
        "submsg" => (Recv::Sub(SubMsg::new(wasm_msg())), wasm_msg().into(), None),
        "submsg_gas" => (Recv::Sub(SubMsg::reply_never(bank.clone()).with_gas_limit(77)), bank.clone(), Some(77)),
        "wasm" => (Recv::Wasm(wasm_msg()), wasm_msg().into(), None),
        "cosmos_bank" => (Recv::Cosmos(bank.clone()), bank.clone(), None),
        _ => (Recv::Cosmos(wasm_msg().into()), wasm_msg().into(), None),
    };
    let sm = f(r).map_err(|e| e.to_string())?;
    let kept = sm.msg == expect_msg && sm.gas_limit == expect_gas;
    Ok((sm, kept, pay))
}

pub fn ctx_reply(c: &sylvia::ctx::ReplyCtx) -> Value {

    let token = c.deps.storage.get(b"verif_token").map(|b| String::from_utf8_lossy(&b).to_string()).unwrap_or_default();
    let evs: Vec<Value> = c.events.iter().map(|e| json!(e.ty)).collect();
    json!({"height": c.env.block.height.to_string(), "contract": c.env.contract.address.to_string(), "token": token,
           "gas_used": c.gas_used.to_string(), "events": evs, "msg_responses": c.msg_responses.len(),
           "callee_seen": crate::chain::peek_callee(c.deps.storage, &c.deps.querier)})
}

/// The context a legacy reply method gets (no `replies` feature: deps and env only).
#[allow(deprecated)]
pub fn ctx_reply_legacy(c: &sylvia::types::ReplyCtx) -> Value {
    let token = c.deps.storage.get(b"verif_token").map(|b| String::from_utf8_lossy(&b).to_string()).unwrap_or_default();
    json!({"height": c.env.block.height.to_string(), "contract": c.env.contract.address.to_string(), "token": token,
           "gas_used": "", "events": [], "msg_responses": 0})
}

/// The whole reply as a legacy reply method sees it.
#[allow(deprecated)]
pub fn reply_proj(r: &Reply) -> Value {
    let (ok, events, data, text) = match &r.result {
        SubMsgResult::Ok(resp) => (true, resp.events.len(), resp.data.as_ref().map(|d| d.to_base64()).unwrap_or_default(), String::new()),
        SubMsgResult::Err(e) => (false, 0, String::new(), e.clone()),
    };
    json!({"kind":"reply","id":r.id.to_string(),"payload":r.payload.to_base64(),"gas_used":r.gas_used.to_string(),"ok":ok,"events":events,"data":data,"text":text})
}

pub fn reply_handler(prog: &str, name: &str, ctx: Value, data: Value, second: Value, payload: Vec<Value>) {
    rt::emit(json!({"ev":"ReplyHandler","prog":prog,"name":name,"ctx":ctx,"data":data,"second":second,"payload":payload}));
}

pub fn inst_data<T: InstLike>(d: &T) -> Value {
    d.proj()
}
pub trait InstLike {
    fn proj(&self) -> Value;
}
impl InstLike for sylvia::cw_utils::MsgInstantiateContractResponse {
    fn proj(&self) -> Value {
        json!({"t":"inst","addr": self.contract_address, "data": self.data.as_ref().map(|d| d.to_base64()).unwrap_or_default()})
    }
}
impl InstLike for Option<sylvia::cw_utils::MsgInstantiateContractResponse> {
    fn proj(&self) -> Value {
        match self {
            Some(x) => x.proj(),
            None => json!({"t":"z","v":"null"}),
        }
    }
}

/// Everything an `always` method can see in the result it is handed: number of events, number of message responses, the data.
#[allow(deprecated)]
pub fn result_full(r: &SubMsgResult) -> Value {
    match r {
        SubMsgResult::Ok(resp) => json!({"events": resp.events.iter().map(|e| e.ty.clone()).collect::<Vec<_>>(), "msgresp": resp.msg_responses.len(),
                                         "data": resp.data.as_ref().map(|d| d.to_base64()).unwrap_or_default(), "has_data": resp.data.is_some()}),
        SubMsgResult::Err(_) => json!({"events": [], "msgresp": 0, "data": "", "has_data": false}),
    }
}

pub fn result_text(r: &SubMsgResult) -> String {
    match r {
        SubMsgResult::Ok(_) => String::new(),
        SubMsgResult::Err(e) => e.clone(),
    }
}

pub fn enc_binary(b: &Binary) -> Value {
    json!(to_json_binary(b).map(|x| x.to_base64()).unwrap_or_default())
}
