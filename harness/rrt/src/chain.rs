//! Sub-messages and replies end to end on a cw-multi-test chain (Chain.tla, Trace_Chain.tla).
//!
//! The caller is a generated reply program (its `fire` exec handler builds a sub-message with the generated builder
//! of a handler name and returns it), the target is the `callee` contract below, an instantiation of its code, or the
//! bank module.  The chain makes the reply (or does not), the generated dispatcher routes it.
use serde_json::{json, Value};
use sylvia::cw_multi_test::{App as RawApp, AppResponse, Executor};
use sylvia::cw_std::{coins, to_json_vec, Addr, BankMsg, Binary, CosmosMsg, Empty, Env, Event, Response, StdError, StdResult, Storage, SubMsg, WasmMsg};

use crate::mt::sender;
use crate::reply::{Recv, ReplyVt};
use crate::{rt, Nested};

fn varint(mut n: usize) -> Vec<u8> {
    let mut v = vec![];
    loop {
        let b = (n & 0x7f) as u8;
        n >>= 7;
        if n == 0 {
            v.push(b);
            return v;
        }
        v.push(b | 0x80);
    }
}

/// A length-delimited protobuf field; a field without bytes is not written at all (proto3).
pub(crate) fn proto_field(tag: u8, data: &[u8]) -> Vec<u8> {
    if data.is_empty() {
        return vec![];
    }
    let mut v = vec![tag];
    v.extend(varint(data.len()));
    v.extend_from_slice(data);
    v
}

/// The data the target returns in each mode (DESIGN C09 / Reply.tla ChainModes).
fn mode_data(mode: &str) -> Option<Vec<u8>> {
    match mode {
        "good" => Some(to_json_vec(&Nested { a: 1, b: "n".to_string() }).unwrap()),
        "long" => Some(to_json_vec(&Nested { a: 1, b: "x".repeat(300) }).unwrap()),
        "badjson" => Some(b"not json".to_vec()),
        "emptydata" => Some(vec![]),
        _ => None,
    }
}

fn bump(s: &mut dyn Storage) {
    let n: u64 = s.get(b"verif_count").and_then(|b| String::from_utf8(b).ok()).and_then(|t| t.parse().ok()).unwrap_or(0);
    s.set(b"verif_count", (n + 1).to_string().as_bytes());
}

fn callee_run(storage: &mut dyn Storage, env: &Env, kind: &str, mode: &str, nev: u32) -> StdResult<Response> {
    if mode == "setup" {
        return Ok(Response::new());
    }
    // the target writes before it decides: a failure must leave no trace
    bump(storage);
    let data = mode_data(mode);
    let addr = env.contract.address.to_string();
    // the envelope the chain is expected to wrap the data in
    let envelope: Option<Vec<u8>> = match kind {
        "exec" => data.as_ref().map(|d| proto_field(0x0a, d)),
        _ => {
            let mut v = proto_field(0x0a, addr.as_bytes());
            v.extend(proto_field(0x12, data.as_deref().unwrap_or(&[])));
            Some(v)
        }
    };
    rt::emit(json!({"ev":"CalleeRan","kind":kind,"mode":mode,"nev":nev,"addr":addr,
        "data_json": data.as_ref().map(|d| rt::tag_text(d)).unwrap_or(json!({"t":"-"})),
        "data_b64": data.as_ref().map(|d| Binary::from(d.clone()).to_base64()).unwrap_or_default(),
        "env_b64": envelope.as_ref().map(|d| Binary::from(d.clone()).to_base64()).unwrap_or_default()}));
    if mode == "fail" {
        return Err(StdError::generic_err("callee failed"));
    }
    let mut r = Response::new().add_attribute("callee", mode);
    for i in 0..nev {
        r = r.add_event(Event::new(format!("ev{i}")).add_attribute("k", format!("v{i}")));
    }
    if let Some(d) = data {
        r = r.set_data(d);
    }
    Ok(r)
}

pub mod callee {
    use sylvia::ctx::{ExecCtx, InstantiateCtx, QueryCtx};
    use sylvia::cw_std::{Response, StdResult};
    pub struct Callee;
    #[sylvia::cw_schema::cw_serde(crate = "sylvia::cw_schema")]
    pub struct CountResp {
        pub count: u64,
    }
    #[sylvia::contract]
    impl Callee {
        pub const fn new() -> Self {
            Callee
        }
        #[sv::msg(instantiate)]
        fn instantiate(&self, ctx: InstantiateCtx, mode: String, nev: u32) -> StdResult<Response> {
            super::callee_run(ctx.deps.storage, &ctx.env, "inst", &mode, nev)
        }
        #[sv::msg(exec)]
        fn act(&self, ctx: ExecCtx, mode: String, nev: u32) -> StdResult<Response> {
            super::callee_run(ctx.deps.storage, &ctx.env, "exec", &mode, nev)
        }
        /// How often `act` has written (as far as the querying transaction can see).
        #[sv::msg(query)]
        fn count(&self, ctx: QueryCtx) -> StdResult<CountResp> {
            let n = ctx.deps.storage.get(b"verif_count").and_then(|b| String::from_utf8(b).ok()).and_then(|t| t.parse().ok()).unwrap_or(0);
            Ok(CountResp { count: n })
        }
    }
}

/// The receiver the generated builder is applied to, for a `recv` of the form `chain|<kind>|<target>|<mode>|<nev>`:
/// the message itself (a `WasmMsg`, or a `CosmosMsg` for the bank) and the message a sub-message made of it must carry.
pub fn chain_recv(recv: &str) -> Option<(Recv, CosmosMsg<Empty>)> {
    let p: Vec<&str> = recv.split('|').collect();
    if p.len() != 5 || p[0] != "chain" {
        return None;
    }
    let (kind, target, mode) = (p[1], p[2], p[3]);
    let nev: u32 = p[4].parse().unwrap_or(0);
    Some(match kind {
        "exec" => {
            // the message for the target is built by the target's own generated executor helper (C10), not written by hand
            use callee::sv::Executor;
            let w: WasmMsg = sylvia::types::Remote::<callee::Callee>::new(Addr::unchecked(target)).executor().act(mode.to_string(), nev).ok()?.build();
            (Recv::Wasm(w.clone()), w.into())
        }
        "inst" => {
            let w = WasmMsg::Instantiate { admin: None, code_id: target.parse().unwrap_or(0), msg: Binary::from(json!({"mode":mode,"nev":nev}).to_string().into_bytes()),
                                           funds: vec![], label: "child".to_string() };
            (Recv::Wasm(w.clone()), w.into())
        }
        _ => {
            // the caller holds the 5 atom the transaction brought: sending 1 succeeds, sending 1000 fails
            let c: CosmosMsg<Empty> = CosmosMsg::Bank(BankMsg::Send { to_address: sender("bob").to_string(), amount: coins(if mode == "fail" { 1000 } else { 1 }, "atom") });
            (Recv::Cosmos(c.clone()), c)
        }
    })
}

/// The caller remembers the contract its sub-message goes to (only a `WasmMsg::Execute` has one), so that its reply methods can ask it.
pub fn note_target(storage: &mut dyn Storage, recv: &str) {
    let p: Vec<&str> = recv.split('|').collect();
    if p.len() == 5 && p[0] == "chain" && p[1] == "exec" {
        storage.set(b"verif_callee", p[2].as_bytes());
    } else {
        storage.remove(b"verif_callee");
    }
}

/// What a reply method sees of the target's counter through the target's generated querier helper, *inside* the running transaction
/// ("-1": there is no target contract to ask).
pub fn peek_callee(storage: &dyn Storage, querier: &sylvia::cw_std::QuerierWrapper) -> i64 {
    use callee::sv::Querier;
    let Some(addr) = storage.get(b"verif_callee").and_then(|b| String::from_utf8(b).ok()) else { return -1 };
    match sylvia::types::Remote::<callee::Callee>::new(Addr::unchecked(addr)).querier(querier).count() {
        Ok(r) => r.count as i64,
        Err(_) => -2,
    }
}

/// What the caller's `fire` handler reports about the sub-message the generated builder made.
pub fn chain_built(prog: &str, h: &str, r: &Option<Result<(SubMsg<Empty>, bool, Vec<Value>), String>>) {
    match r {
        Some(Ok((sm, kept, pay))) => rt::emit(json!({"ev":"ChainBuilt","prog":prog,"h":h,"verdict":"ok","id":sm.id.to_string(),
            "reply_on": match sm.reply_on { sylvia::cw_std::ReplyOn::Always => "always", sylvia::cw_std::ReplyOn::Success => "success",
                                            sylvia::cw_std::ReplyOn::Error => "error", sylvia::cw_std::ReplyOn::Never => "never" },
            "msg_eq": kept, "payload": sm.payload.to_base64(), "pay_vals": pay})),
        Some(Err(e)) => rt::emit(json!({"ev":"ChainBuilt","prog":prog,"h":h,"verdict":"err","id":"","reply_on":"","msg_eq":false,"payload":"","pay_vals":[],"err":e})),
        None => rt::emit(json!({"ev":"ChainBuilt","prog":prog,"h":h,"verdict":"absent","id":"","reply_on":"","msg_eq":false,"payload":"","pay_vals":[]})),
    }
}

fn get(app: &RawApp, c: &Addr, k: &[u8]) -> String {
    app.dump_wasm_raw(c).iter().find(|(kk, _)| kk.as_slice() == k).map(|(_, v)| String::from_utf8_lossy(v).to_string()).unwrap_or_default()
}

fn view(app: &RawApp, caller: &Addr, callee: &Addr) -> Value {
    let n = |s: String| s.parse::<u64>().unwrap_or(0);
    json!({"mark": get(app, caller, b"verif_mark"), "count": n(get(app, caller, b"verif_count")), "callee": n(get(app, callee, b"verif_count"))})
}

pub fn run_chain_program(vt: &ReplyVt, prog: &Value) {
    let stims = prog["chain"].as_array().cloned().unwrap_or_default();
    let Some(mk) = vt.boxed else { return };
    if stims.is_empty() {
        return;
    }
    let id = vt.id;
    let alice = sender("alice");
    let mut app = RawApp::new(|router, _api, storage| {
        router.bank.init_balance(storage, &sender("alice"), coins(1_000_000, "atom")).unwrap();
    });
    let caller_code = app.store_code(mk());
    let callee_code = app.store_code(Box::new(callee::Callee::new()));
    let caller = match app.instantiate_contract(caller_code, alice.clone(), &json!({}), &[], "caller", None) {
        Ok(a) => a,
        Err(e) => {
            rt::emit(json!({"ev":"Panic","prog":id,"where":"chain","msg":format!("caller does not instantiate: {e:?}")}));
            return;
        }
    };
    let callee = app.instantiate_contract(callee_code, alice.clone(), &json!({"mode":"setup","nev":0}), &[], "callee", None).unwrap();
    rt::emit(json!({"ev":"ChainInit","prog":id,"caller":caller.to_string(),"callee":callee.to_string(),
        "height":app.block_info().height.to_string(),"view":view(&app, &caller, &callee)}));
    for (seq, s) in stims.iter().enumerate() {
        let h = s["h"].as_str().unwrap_or("");
        let kind = s["kind"].as_str().unwrap_or("");
        let mode = s["mode"].as_str().unwrap_or("");
        let val = (seq % 2) as u32;
        let nev = if seq % 3 == 0 { 0 } else { 2 };
        let target = if kind == "inst" { callee_code.to_string() } else { callee.to_string() };
        let recv = format!("chain|{kind}|{target}|{mode}|{nev}");
        rt::emit(json!({"ev":"ChainFire","prog":id,"seq":seq,"h":h,"kind":kind,"mode":mode,"val":val,"nev":nev}));
        let msg = json!({"fire":{"h":h,"recv":recv,"val":val}});
        let out = std::panic::catch_unwind(std::panic::AssertUnwindSafe(|| app.execute_contract(alice.clone(), caller.clone(), &msg, &coins(5, "atom"))));
        match out {
            Ok(r) => rt::emit(done(id, seq, &r, view(&app, &caller, &callee))),
            Err(_) => {
                rt::emit(json!({"ev":"Panic","prog":id,"where":"chain","msg":"panic"}));
                return; // (the chain may be left half-way through a transaction)
            }
        }
    }
}

fn done(id: &str, seq: usize, r: &Result<AppResponse, anyhow::Error>, view: Value) -> Value {
    match r {
        Ok(a) => json!({"ev":"ChainDone","prog":id,"seq":seq,"verdict":"ok","data":a.data.as_ref().map(|d| String::from_utf8_lossy(d.as_slice()).to_string()).unwrap_or_default(),
            "handler_err":false,"err_mentions_callee":false,"err":"","view":view,"event_types":a.events.iter().map(|e| e.ty.clone()).collect::<Vec<_>>()}),
        Err(e) => {
            let text = format!("{e:?}");
            json!({"ev":"ChainDone","prog":id,"seq":seq,"verdict":"err","data":"","handler_err":text.contains("boom 7"),
                "err_mentions_callee":text.contains("callee failed"),"err":text.chars().take(400).collect::<String>(),"view":view,"event_types":[]})
        }
    }
}
