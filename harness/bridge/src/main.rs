//! C11: bridging to chain-custom types.  Replays TLC-enumerated responses into the real
//! `IntoResponse::into_response` and through a custom-typed contract that includes an interface
//! written for the empty custom types; records what went in, what came out, and what the
//! bridged handler saw.   usage: verif-bridge <stimuli.ndjson> <trace.ndjson>
#![allow(dead_code, deprecated)]
use std::cell::RefCell;

use serde_json::{json, Value};
use sylvia::cw_std::testing::{MockApi, MockQuerier, MockStorage};
use sylvia::cw_std::{
    coin, coins, Addr, BankMsg, Binary, CosmosMsg, CustomMsg, CustomQuery, DistributionMsg, Empty, Env, Event, GovMsg, IbcMsg,
    IbcTimeout, MessageInfo, OwnedDeps, ReplyOn, Response, StakingMsg, StdError, StdResult, Storage, SubMsg, Timestamp, VoteOption, WasmMsg,
};
use sylvia::into_response::IntoResponse;

#[cosmwasm_schema::cw_serde]
pub struct MyMsg {}
impl CustomMsg for MyMsg {}
#[cosmwasm_schema::cw_serde]
pub struct MyQuery {}
impl CustomQuery for MyQuery {}

#[cosmwasm_schema::cw_serde]
pub struct QAnswer {
    pub nonce: String,
}

thread_local! {
    static NEXT: RefCell<Option<Response<Empty>>> = const { RefCell::new(None) };
    static SEEN: RefCell<Vec<Value>> = const { RefCell::new(Vec::new()) };
}

fn saw(kind: &str, env: &Env, storage: &dyn Storage, info: Option<&MessageInfo>, nonce: String) {
    let token = storage.get(b"verif_token").map(|b| String::from_utf8_lossy(&b).to_string()).unwrap_or_default();
    let funds: Vec<Value> = info.map(|i| i.funds.iter().map(|c| json!([c.denom, c.amount.to_string()])).collect()).unwrap_or_default();
    SEEN.with(|s| s.borrow_mut().push(json!({"handler":kind,"height":env.block.height.to_string(),"contract":env.contract.address.to_string(),
        "token":token,"nonce":nonce,"sender":info.map(|i| i.sender.to_string()).unwrap_or_default(),"funds":funds})));
}

pub mod plain {
    use super::*;
    use sylvia::ctx::{ExecCtx, SudoCtx};
    #[sylvia::interface]
    #[sv::custom(msg=sylvia::cw_std::Empty, query=sylvia::cw_std::Empty)]
    pub trait Plain {
        type Error: From<StdError>;
        #[sv::msg(exec)]
        fn echo_exec(&self, ctx: ExecCtx) -> Result<Response, Self::Error>;
        #[sv::msg(sudo)]
        fn echo_sudo(&self, ctx: SudoCtx) -> Result<Response, Self::Error>;
        #[sv::msg(query)]
        fn echo_query(&self, ctx: sylvia::ctx::QueryCtx) -> Result<super::QAnswer, Self::Error>;
    }
}

pub struct BCtr;

macro_rules! impl_plain {
    ($t:ty) => {
impl plain::Plain for $t {
    type Error = StdError;
    fn echo_exec(&self, ctx: sylvia::ctx::ExecCtx) -> StdResult<Response> {
        let nonce = ctx.deps.querier.query_balance("bank", "nonce").map(|c| c.amount.to_string()).unwrap_or_else(|e| format!("ERR {e}"));
        saw("bridged_exec", &ctx.env, ctx.deps.storage, Some(&ctx.info), nonce);
        ctx.deps.storage.set(b"verif_mark", b"echo_exec");
        Ok(NEXT.with(|n| n.borrow_mut().take()).unwrap_or_default())
    }
    fn echo_query(&self, ctx: sylvia::ctx::QueryCtx) -> StdResult<QAnswer> {
        let nonce = ctx.deps.querier.query_balance("bank", "nonce").map(|c| c.amount.to_string()).unwrap_or_else(|e| format!("ERR {e}"));
        saw("bridged_query", &ctx.env, ctx.deps.storage, None, nonce.clone());
        Ok(QAnswer { nonce })
    }
    fn echo_sudo(&self, ctx: sylvia::ctx::SudoCtx) -> StdResult<Response> {
        let nonce = ctx.deps.querier.query_balance("bank", "nonce").map(|c| c.amount.to_string()).unwrap_or_else(|e| format!("ERR {e}"));
        saw("bridged_sudo", &ctx.env, ctx.deps.storage, None, nonce);
        ctx.deps.storage.set(b"verif_mark", b"echo_sudo");
        Ok(NEXT.with(|n| n.borrow_mut().take()).unwrap_or_default())
    }
}

    };
}
impl_plain!(BCtr);

#[sylvia::entry_points]
#[sylvia::contract]
#[sv::custom(msg=MyMsg, query=MyQuery)]
#[sv::messages(plain: custom(msg, query))]
impl BCtr {
    pub const fn new() -> Self {
        BCtr
    }
    #[sv::msg(instantiate)]
    fn instantiate(&self, _ctx: sylvia::ctx::InstantiateCtx<MyQuery>) -> StdResult<Response<MyMsg>> {
        Ok(Response::new())
    }
    #[sv::msg(exec)]
    fn native_exec(&self, ctx: sylvia::ctx::ExecCtx<MyQuery>) -> StdResult<Response<MyMsg>> {
        let nonce = ctx.deps.querier.query_balance("bank", "nonce").map(|c| c.amount.to_string()).unwrap_or_else(|e| format!("ERR {e}"));
        saw("native_exec", &ctx.env, ctx.deps.storage, Some(&ctx.info), nonce);
        Ok(Response::new())
    }
}

/// A contract with a custom *query* type only (its messages stay over the empty custom message type), including the same interface.
pub mod qonly {
    use super::*;
    pub struct QCtr;
    impl_plain!(QCtr);

    #[sylvia::entry_points]
    #[sylvia::contract]
    #[sv::custom(query=MyQuery)]
    #[sv::messages(plain: custom(msg, query))]
    impl QCtr {
        pub const fn new() -> Self {
            QCtr
        }
        #[sv::msg(instantiate)]
        fn instantiate(&self, _ctx: sylvia::ctx::InstantiateCtx<MyQuery>) -> StdResult<Response> {
            Ok(Response::new())
        }
    }
}

// ---- building responses from the specification's description ------------------------------------

fn cosmos(kind: &str) -> CosmosMsg<Empty> {
    match kind {
        "wasm" => WasmMsg::Execute { contract_addr: "c".into(), msg: Binary::from(b"{}".to_vec()), funds: coins(1, "a") }.into(),
        "bank" => BankMsg::Send { to_address: "bob".into(), amount: coins(2, "atom") }.into(),
        "staking" => StakingMsg::Delegate { validator: "val".into(), amount: coin(3, "stake") }.into(),
        "distribution" => DistributionMsg::WithdrawDelegatorReward { validator: "val".into() }.into(),
        "stargate" => CosmosMsg::Stargate { type_url: "/x.y".into(), value: Binary::from(b"v".to_vec()) },
        "ibc" => IbcMsg::Transfer { channel_id: "ch".into(), to_address: "d".into(), amount: coin(1, "a"),
                                    timeout: IbcTimeout::with_timestamp(Timestamp::from_seconds(9)), memo: None }.into(),
        "gov" => GovMsg::Vote { proposal_id: 4, option: VoteOption::Yes }.into(),
        _ => CosmosMsg::Custom(Empty {}),
    }
}

fn submsg(kind: &str, prof: u64) -> SubMsg<Empty> {
    // payload lengths: nothing, a few bytes, and lengths just past the sizes an implementation might take for limits
    // (one byte of length, 64 KiB, the 128 KiB a chain allows by default)
    let (id, gas, on, payload): (u64, Option<u64>, ReplyOn, Vec<u8>) = match prof {
        1 => (0, None, ReplyOn::Never, vec![]),
        2 => (7, Some(500), ReplyOn::Always, long_bytes(128 * 1024 + 1)),
        3 => (9, Some(3), ReplyOn::Never, long_bytes(64 * 1024 + 1)),
        4 => (0, Some(11), ReplyOn::Always, b"zero-id".to_vec()),      // the id of the first reply handler of a contract, with trigger and payload
        5 => (1 << 40, None, ReplyOn::Success, long_bytes(257)),
        6 => (0, None, ReplyOn::Error, b"e".to_vec()),
        _ => (1, Some(1), ReplyOn::Error, vec![]),
    };
    SubMsg { id, msg: cosmos(kind), gas_limit: gas, reply_on: on, payload: Binary::from(payload) }
}

/// `n` bytes, no two neighbouring ones equal (truncation, padding and reordering all show).
fn long_bytes(n: usize) -> Vec<u8> {
    (0..n).map(|i| (i % 251) as u8).collect()
}

/// Long strings are recorded by length and checksum (FNV-1a, 64 bit): both sides of a comparison are recorded the same way.
fn summ(s: String) -> String {
    if s.len() <= 96 {
        return s;
    }
    let mut h: u64 = 0xcbf29ce484222325;
    for b in s.as_bytes() {
        h ^= *b as u64;
        h = h.wrapping_mul(0x100000001b3);
    }
    format!("<{} chars, fnv1a {:016x}>", s.len(), h)
}

fn response(s: &Value) -> Response<Empty> {
    let mut r = Response::new();
    for m in s["msgs"].as_array().cloned().unwrap_or_default() {
        r = r.add_submessage(submsg(m["kind"].as_str().unwrap_or(""), m["prof"].as_u64().unwrap_or(1)));
    }
    for i in 0..s["attrs"].as_u64().unwrap_or(0) {
        r = r.add_attribute(format!("k{i}"), if i == 1 { "v".repeat(70_000) } else { format!("v{i}") });      // (one long value)
    }
    for i in 0..s["events"].as_u64().unwrap_or(0) {
        r = r.add_event(Event::new(format!("e{i}")).add_attribute("x", format!("{i}")));
    }
    // data: "none" | "empty" (present, no bytes) | "zero" (one zero byte) | "bytes"
    match s["data"].as_str().unwrap_or("none") {
        "empty" => r = r.set_data(Vec::<u8>::new()),
        "zero" => r = r.set_data(vec![0u8]),
        "bytes" => r = r.set_data(b"data!"),
        "long" => r = r.set_data(long_bytes(140_000)),
        _ => {}
    }
    r
}

fn kind_of<T>(m: &CosmosMsg<T>) -> &'static str {
    match m {
        CosmosMsg::Wasm(_) => "wasm",
        CosmosMsg::Bank(_) => "bank",
        CosmosMsg::Staking(_) => "staking",
        CosmosMsg::Distribution(_) => "distribution",
        CosmosMsg::Stargate { .. } => "stargate",
        CosmosMsg::Ibc(_) => "ibc",
        CosmosMsg::Gov(_) => "gov",
        CosmosMsg::Custom(_) => "custom",
        _ => "other",
    }
}

fn proj<T: serde::Serialize>(r: &Response<T>) -> Value {
    let msgs: Vec<Value> = r.messages.iter().map(|m| json!({"kind": kind_of(&m.msg), "id": m.id.to_string(),
        "gas": m.gas_limit.map(|g| g.to_string()).unwrap_or_default(), "reply_on": format!("{:?}", m.reply_on),
        "payload": summ(m.payload.to_base64()), "msg": serde_json::to_string(&m.msg).unwrap_or_default()})).collect();
    let attrs: Vec<Value> = r.attributes.iter().map(|a| json!([a.key, summ(a.value.clone())])).collect();
    let events: Vec<Value> = r.events.iter().map(|e| json!({"ty": e.ty, "attrs": e.attributes.iter().map(|a| json!([a.key, a.value])).collect::<Vec<_>>()})).collect();
    json!({"msgs": msgs, "attrs": attrs, "events": events, "has_data": r.data.is_some(),
           "data": summ(r.data.as_ref().map(|d| d.to_base64()).unwrap_or_default())})
}

fn empty_proj() -> Value {
    json!({"msgs": [], "attrs": [], "events": [], "has_data": false, "data": ""})
}

type CDeps = OwnedDeps<MockStorage, MockApi, MockQuerier<MyQuery>, MyQuery>;

fn custom_deps(seq: u64) -> (CDeps, Env, MessageInfo, Value) {
    let nonce = 5000 + seq as u128;
    let mut deps: CDeps = OwnedDeps {
        storage: MockStorage::default(),
        api: MockApi::default(),
        querier: MockQuerier::<MyQuery>::new(&[("bank", &[coin(nonce, "nonce")])]),
        custom_query_type: std::marker::PhantomData,
    };
    let token = format!("b{seq}");
    deps.storage.set(b"verif_token", token.as_bytes());
    let mut env = sylvia::cw_std::testing::mock_env();
    env.block.height = 100 + seq;
    env.contract.address = Addr::unchecked(format!("bridge{}", seq % 3));
    let funds = if seq % 2 == 0 { vec![] } else { coins(9, "atom") };
    let info = MessageInfo { sender: Addr::unchecked(format!("sender{}", seq % 4)), funds: funds.clone() };
    let fj: Vec<Value> = funds.iter().map(|c| json!([c.denom, c.amount.to_string()])).collect();
    let envj = json!({"height": (100 + seq).to_string(), "contract": format!("bridge{}", seq % 3), "sender": format!("sender{}", seq % 4),
        "funds": fj, "token": token, "nonce": nonce.to_string()});
    (deps, env, info, envj)
}

fn main() {
    let a: Vec<String> = std::env::args().collect();
    let stim = verif_rt::read_ndjson(&a[1]);
    verif_rt::open_trace(&a[2]);
    verif_rt::quiet_panics();
    for (seq, s) in stim.iter().enumerate() {
        let seq = seq as u64;
        let desc = json!({"msgs": s["msgs"], "attrs": s["attrs"], "events": s["events"], "data": s["data"]});
        // 1. the conversion itself
        let inp = response(s);
        let inj = proj(&inp);
        let r = verif_rt::catch(move || IntoResponse::<MyMsg>::into_response(inp));
        let ev = match r {
            Ok(Ok(out)) => json!({"ev":"Bridge","seq":seq,"via":"direct","desc":desc,"in":inj,"verdict":"ok","out":proj(&out),"err":""}),
            Ok(Err(e)) => json!({"ev":"Bridge","seq":seq,"via":"direct","desc":desc,"in":inj,"verdict":"err","out":empty_proj(),"err":e.to_string()}),
            Err(m) => json!({"ev":"Bridge","seq":seq,"via":"direct","desc":desc,"in":inj,"verdict":"panic","out":empty_proj(),"err":m}),
        };
        verif_rt::emit(ev);
        // 2. through the custom-typed contract's entry points (every 3rd response, to bound the run)
        if seq % 3 != 0 {
            continue;
        }
        if seq % 30 == 0 {
            // a query of the bridged interface: deps carrying the custom query type are converted for the handler (every 30th response)
            let (deps, env, _info, envj) = custom_deps(seq);
            SEEN.with(|s| s.borrow_mut().clear());
            let msg: sv::ContractQueryMsg = sylvia::cw_std::from_json(b"{\"echo_query\":{}}").unwrap();
            let r = std::panic::catch_unwind(std::panic::AssertUnwindSafe(|| entry_points::query(deps.as_ref(), env, msg)));
            let seen: Vec<Value> = SEEN.with(|s| s.borrow().clone());
            let (verdict, answer) = match r {
                Ok(Ok(b)) => ("ok", verif_rt::tag_text(b.as_slice())),
                Ok(Err(_)) => ("err", json!({"t":"-"})),
                Err(_) => ("panic", json!({"t":"-"})),
            };
            verif_rt::emit(json!({"ev":"BridgeQuery","seq":seq,"env":envj,"seen":seen,"verdict":verdict,"answer":answer}));
        }
        for via in ["exec", "sudo"] {
            let (mut deps, env, info, envj) = custom_deps(seq);
            NEXT.with(|n| *n.borrow_mut() = Some(response(s)));
            SEEN.with(|s| s.borrow_mut().clear());
            let out: Result<StdResult<Response<MyMsg>>, String> = if via == "exec" {
                let msg: sv::ContractExecMsg = sylvia::cw_std::from_json(b"{\"echo_exec\":{}}").unwrap();
                let (e2, i2) = (env.clone(), info.clone());
                let d = &mut deps;
                std::panic::catch_unwind(std::panic::AssertUnwindSafe(|| entry_points::execute(d.as_mut(), e2, i2, msg))).map_err(|_| "panic".to_string())
            } else {
                let msg: sv::ContractSudoMsg = sylvia::cw_std::from_json(b"{\"echo_sudo\":{}}").unwrap();
                let e2 = env.clone();
                let d = &mut deps;
                std::panic::catch_unwind(std::panic::AssertUnwindSafe(|| entry_points::sudo(d.as_mut(), e2, msg))).map_err(|_| "panic".to_string())
            };
            let seen: Vec<Value> = SEEN.with(|s| s.borrow().clone());
            let mark = deps.storage.get(b"verif_mark").map(|b| String::from_utf8_lossy(&b).to_string()).unwrap_or_default();
            // a native handler of the same contract with the same inputs, for comparison of what handlers see
            let native = if via == "exec" {
                let (mut d2, e2, i2, _) = custom_deps(seq);
                SEEN.with(|s| s.borrow_mut().clear());
                let msg: sv::ContractExecMsg = sylvia::cw_std::from_json(b"{\"native_exec\":{}}").unwrap();
                let _ = entry_points::execute(d2.as_mut(), e2, i2, msg);
                SEEN.with(|s| s.borrow().first().cloned()).unwrap_or(json!({}))
            } else {
                json!({})
            };
            let base = json!({"ev":"Bridge","seq":seq,"via":via,"desc":desc,"in":proj(&response(s)),"env":envj,"seen":seen,"native":native,"mark":mark});
            let mut ev = base;
            match out {
                Ok(Ok(o)) => { ev["verdict"] = json!("ok"); ev["out"] = proj(&o); ev["err"] = json!(""); }
                Ok(Err(e)) => { ev["verdict"] = json!("err"); ev["out"] = empty_proj(); ev["err"] = json!(e.to_string()); }
                Err(m) => { ev["verdict"] = json!("panic"); ev["out"] = empty_proj(); ev["err"] = json!(m); }
            }
            verif_rt::emit(ev);
        }
        if seq % 6 != 0 {
            continue;
        }
        // 3. the same through a contract that has a custom query type but no custom message type
        for via in ["qexec", "qsudo"] {
            let (mut deps, env, info, envj) = custom_deps(seq);
            NEXT.with(|n| *n.borrow_mut() = Some(response(s)));
            SEEN.with(|s| s.borrow_mut().clear());
            let out: Result<StdResult<Response>, String> = if via == "qexec" {
                let msg: qonly::sv::ContractExecMsg = sylvia::cw_std::from_json(b"{\"echo_exec\":{}}").unwrap();
                let (e2, i2) = (env.clone(), info.clone());
                let d = &mut deps;
                std::panic::catch_unwind(std::panic::AssertUnwindSafe(|| qonly::entry_points::execute(d.as_mut(), e2, i2, msg))).map_err(|_| "panic".to_string())
            } else {
                let msg: qonly::sv::ContractSudoMsg = sylvia::cw_std::from_json(b"{\"echo_sudo\":{}}").unwrap();
                let e2 = env.clone();
                let d = &mut deps;
                std::panic::catch_unwind(std::panic::AssertUnwindSafe(|| qonly::entry_points::sudo(d.as_mut(), e2, msg))).map_err(|_| "panic".to_string())
            };
            let seen: Vec<Value> = SEEN.with(|s| s.borrow().clone());
            let mark = deps.storage.get(b"verif_mark").map(|b| String::from_utf8_lossy(&b).to_string()).unwrap_or_default();
            let mut ev = json!({"ev":"Bridge","seq":seq,"via":via,"desc":desc,"in":proj(&response(s)),"env":envj,"seen":seen,"native":{},"mark":mark});
            match out {
                Ok(Ok(o)) => { ev["verdict"] = json!("ok"); ev["out"] = proj(&o); ev["err"] = json!(""); }
                Ok(Err(e)) => { ev["verdict"] = json!("err"); ev["out"] = empty_proj(); ev["err"] = json!(e.to_string()); }
                Err(m) => { ev["verdict"] = json!("panic"); ev["out"] = empty_proj(); ev["err"] = json!(m); }
            }
            verif_rt::emit(ev);
        }
    }
    verif_rt::close_trace();
}
