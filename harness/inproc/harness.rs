// In-process expansion harness, `include!`d into sylvia-derive's test build by the `verif-hook`
// feature (DESIGN §4.3).  It calls the macro implementations on token streams and writes a
// *projection* of each expansion as one JSON line.  It contains no expectations.
//
// Input  (env VERIF_INPROC_IN):  text file of records
//     //@@ <id> <macro: contract|interface|entry_points> <attribute tokens ...>
//     <item source ...>
// Output (env VERIF_INPROC_OUT): ndjson `Expand` events.

use std::collections::hash_map::DefaultHasher;
use std::fmt::Write as _;
use std::hash::{Hash, Hasher};
use std::str::FromStr;

use proc_macro2::TokenStream as Ts;
use quote::ToTokens;

fn js(s: &str) -> String {
    let mut o = String::with_capacity(s.len() + 2);
    o.push('"');
    for c in s.chars() {
        match c {
            '"' => o.push_str("\\\""),
            '\\' => o.push_str("\\\\"),
            '\n' => o.push_str("\\n"),
            '\r' => o.push_str("\\r"),
            '\t' => o.push_str("\\t"),
            c if (c as u32) < 0x20 => {
                let _ = write!(o, "\\u{:04x}", c as u32);
            }
            c => o.push(c),
        }
    }
    o.push('"');
    o
}

fn jarr(items: &[String]) -> String {
    format!("[{}]", items.join(","))
}

fn toks<T: ToTokens>(t: &T) -> String {
    // token text with all whitespace removed: insensitive to pretty-printing, sensitive to tokens
    let s = t.to_token_stream().to_string().split_whitespace().collect::<Vec<_>>().join(" ");
    // one spelling whatever the token printer's spacing around brackets, commas and path separators is
    s.replace(" (", "(").replace("( ", "(").replace(" )", ")").replace(" ,", ",").replace(" :: ", "::").replace(" < ", "<").replace(" >", ">")
}

fn hash_str(s: &str) -> String {
    let mut h = DefaultHasher::new();
    s.hash(&mut h);
    format!("{:016x}", h.finish())
}

/// An attribute as (path, argument tokens): `#[sv::msg(exec)]` -> {"p":"sv::msg","t":"exec"}.
fn attr_json(a: &syn::Attribute) -> String {
    let path = a.path().segments.iter().map(|s| s.ident.to_string()).collect::<Vec<_>>().join("::");
    let args = match &a.meta {
        syn::Meta::Path(_) => String::new(),
        syn::Meta::List(l) => toks(&l.tokens),
        syn::Meta::NameValue(nv) => format!("= {}", toks(&nv.value)),
    };
    format!("{{\"p\":{},\"t\":{}}}", js(&path), js(&args))
}

fn attrs_json(attrs: &[syn::Attribute]) -> String {
    jarr(&attrs.iter().map(attr_json).collect::<Vec<_>>())
}

fn generics_json(g: &syn::Generics) -> (String, String) {
    let params: Vec<String> = g
        .params
        .iter()
        .map(|p| match p {
            syn::GenericParam::Type(t) => js(&t.ident.to_string()),
            syn::GenericParam::Lifetime(l) => js(&format!("'{}", l.lifetime.ident)),
            syn::GenericParam::Const(c) => js(&format!("const {}", c.ident)),
        })
        .collect();
    let wheres: Vec<String> = g
        .where_clause
        .as_ref()
        .map(|w| w.predicates.iter().map(|p| js(&toks(p))).collect())
        .unwrap_or_default();
    (jarr(&params), jarr(&wheres))
}

fn fields_json(fields: &syn::Fields) -> String {
    let items: Vec<String> = fields
        .iter()
        .enumerate()
        .map(|(i, f)| {
            let name = f.ident.as_ref().map(|i| i.to_string()).unwrap_or_else(|| format!("{i}"));
            format!("{{\"n\":{},\"ty\":{},\"attrs\":{}}}", js(&name), js(&toks(&f.ty)), attrs_json(&f.attrs))
        })
        .collect();
    jarr(&items)
}

fn sig_inputs_json(sig: &syn::Signature) -> String {
    let items: Vec<String> = sig
        .inputs
        .iter()
        .map(|a| match a {
            syn::FnArg::Receiver(r) => format!("{{\"n\":\"self\",\"attrs\":{}}}", attrs_json(&r.attrs)),
            syn::FnArg::Typed(t) => format!("{{\"n\":{},\"attrs\":{}}}", js(&toks(&t.pat)), attrs_json(&t.attrs)),
        })
        .collect();
    jarr(&items)
}

fn sig_without_param_attrs(sig: &syn::Signature) -> String {
    let mut s = sig.clone();
    for a in s.inputs.iter_mut() {
        match a {
            syn::FnArg::Receiver(r) => r.attrs.clear(),
            syn::FnArg::Typed(t) => t.attrs.clear(),
        }
    }
    // a trailing comma after the last parameter is not part of the signature's meaning
    s.inputs = s.inputs.into_iter().collect();
    toks(&s)
}

/// Skeleton of an impl block or trait: what C13 compares between the input and the re-emitted item.
fn item_skeleton(item: &syn::Item) -> String {
    match item {
        syn::Item::Impl(i) => {
            let (gp, gw) = generics_json(&i.generics);
            let members: Vec<String> = i
                .items
                .iter()
                .map(|m| match m {
                    syn::ImplItem::Fn(f) => format!(
                        "{{\"kind\":\"fn\",\"name\":{},\"attrs\":{},\"vis\":{},\"params\":{},\"sig\":{},\"body\":{}}}",
                        js(&f.sig.ident.to_string()),
                        attrs_json(&f.attrs),
                        js(&toks(&f.vis)),
                        sig_inputs_json(&f.sig),
                        js(&hash_str(&sig_without_param_attrs(&f.sig))),
                        js(&hash_str(&toks(&f.block)))
                    ),
                    other => format!("{{\"kind\":\"other\",\"name\":\"\",\"attrs\":[],\"vis\":\"\",\"params\":[],\"sig\":{},\"body\":\"\"}}", js(&hash_str(&toks(other)))),
                })
                .collect();
            format!(
                "{{\"what\":\"impl\",\"attrs\":{},\"generics\":{},\"wheres\":{},\"self_ty\":{},\"members\":{}}}",
                attrs_json(&i.attrs),
                gp,
                gw,
                js(&toks(&i.self_ty)),
                jarr(&members)
            )
        }
        syn::Item::Trait(t) => {
            let (gp, gw) = generics_json(&t.generics);
            let members: Vec<String> = t
                .items
                .iter()
                .map(|m| match m {
                    syn::TraitItem::Fn(f) => format!(
                        "{{\"kind\":\"fn\",\"name\":{},\"attrs\":{},\"vis\":\"\",\"params\":{},\"sig\":{},\"body\":{}}}",
                        js(&f.sig.ident.to_string()),
                        attrs_json(&f.attrs),
                        sig_inputs_json(&f.sig),
                        js(&hash_str(&sig_without_param_attrs(&f.sig))),
                        js(&hash_str(&f.default.as_ref().map(toks).unwrap_or_default()))
                    ),
                    other => format!("{{\"kind\":\"other\",\"name\":\"\",\"attrs\":[],\"vis\":\"\",\"params\":[],\"sig\":{},\"body\":\"\"}}", js(&hash_str(&toks(other)))),
                })
                .collect();
            format!(
                "{{\"what\":\"trait\",\"attrs\":{},\"generics\":{},\"wheres\":{},\"self_ty\":{},\"members\":{}}}",
                attrs_json(&t.attrs),
                gp,
                gw,
                js(&format!("{} {}", toks(&t.vis), t.ident)),
                jarr(&members)
            )
        }
        other => format!("{{\"what\":\"other\",\"attrs\":[],\"generics\":[],\"wheres\":[],\"self_ty\":{},\"members\":[]}}", js(&hash_str(&toks(other)))),
    }
}

/// Projection of the generated types (enums / structs), constants and functions of a module.
fn collect_types(items: &[syn::Item], types: &mut Vec<String>, consts: &mut Vec<String>, fns: &mut Vec<String>, impls: &mut Vec<String>) {
    for it in items {
        match it {
            syn::Item::Enum(e) => {
                let (gp, gw) = generics_json(&e.generics);
                let variants: Vec<String> = e
                    .variants
                    .iter()
                    .map(|v| format!("{{\"n\":{},\"attrs\":{},\"fields\":{}}}", js(&v.ident.to_string()), attrs_json(&v.attrs), fields_json(&v.fields)))
                    .collect();
                types.push(format!(
                    "{{\"n\":{},\"what\":\"enum\",\"generics\":{},\"wheres\":{},\"attrs\":{},\"variants\":{},\"fields\":[]}}",
                    js(&e.ident.to_string()), gp, gw, attrs_json(&e.attrs), jarr(&variants)
                ));
            }
            syn::Item::Struct(s) => {
                let (gp, gw) = generics_json(&s.generics);
                types.push(format!(
                    "{{\"n\":{},\"what\":\"struct\",\"generics\":{},\"wheres\":{},\"attrs\":{},\"variants\":[],\"fields\":{}}}",
                    js(&s.ident.to_string()), gp, gw, attrs_json(&s.attrs), fields_json(&s.fields)
                ));
            }
            syn::Item::Const(c) => consts.push(format!("{{\"n\":{},\"v\":{}}}", js(&c.ident.to_string()), js(&toks(&c.expr)))),
            syn::Item::Fn(f) => fns.push(js(&f.sig.ident.to_string())),
            syn::Item::Impl(i) => {
                let (gp, gw) = generics_json(&i.generics);
                let tr = i.trait_.as_ref().map(|(_, p, _)| toks(p)).unwrap_or_default();
                let name = match &*i.self_ty {
                    syn::Type::Path(p) => p.path.segments.last().map(|s| s.ident.to_string()).unwrap_or_default(),
                    _ => String::new(),
                };
                // associated types of the impl: `type Exec = ExecMsg<T2, T1>` -> {"n":"Exec","head":"ExecMsg","args":["T2","T1"]}
                let assoc: Vec<String> = i.items.iter().filter_map(|it| match it {
                    syn::ImplItem::Type(t) => {
                        let (head, args) = match &t.ty {
                            syn::Type::Path(p) => {
                                let last = p.path.segments.last();
                                let head = last.map(|s| s.ident.to_string()).unwrap_or_default();
                                let args: Vec<String> = match last.map(|s| &s.arguments) {
                                    Some(syn::PathArguments::AngleBracketed(a)) => a.args.iter().map(|x| js(&toks(x))).collect(),
                                    _ => vec![],
                                };
                                (head, args)
                            }
                            other => (toks(other), vec![]),
                        };
                        Some(format!("{{\"n\":{},\"head\":{},\"args\":{}}}", js(&t.ident.to_string()), js(&head), jarr(&args)))
                    }
                    _ => None,
                }).collect();
                impls.push(format!("{{\"self_ty\":{},\"name\":{},\"trait\":{},\"generics\":{},\"wheres\":{},\"assoc\":{}}}",
                    js(&toks(&i.self_ty)), js(&name), js(&tr), gp, gw, jarr(&assoc)));
            }
            syn::Item::Mod(m) => {
                if let Some((_, inner)) = &m.content {
                    if m.ident != "mt" {
                        collect_types(inner, types, consts, fns, impls);
                    }
                }
            }
            _ => {}
        }
    }
}

fn has_compile_error(ts: &Ts) -> bool {
    let s = ts.to_string();
    s.contains("compile_error !") || s.contains("compile_error!")
}

fn expand(mac: &str, attr: Ts, item: Ts) -> Result<Ts, String> {
    let mac = mac.to_string();
    std::panic::catch_unwind(move || match mac.as_str() {
        "contract" => crate::contract_impl(attr, item),
        "interface" => crate::interface_impl(attr, item),
        "entry_points" => crate::entry_points_impl(attr, item),
        other => panic!("harness: unknown macro {other}"),
    })
    .map_err(|e| {
        if let Some(s) = e.downcast_ref::<&str>() {
            s.to_string()
        } else if let Some(s) = e.downcast_ref::<String>() {
            s.clone()
        } else {
            "<non-string panic>".to_string()
        }
    })
}

fn project(id: &str, mac: &str, attr_src: &str, item_src: &str) -> String {
    let attr = match Ts::from_str(attr_src) {
        Ok(t) => t,
        Err(e) => return format!("{{\"ev\":\"Expand\",\"id\":{},\"macro\":{},\"verdict\":\"badinput\",\"msg\":{}}}", js(id), js(mac), js(&e.to_string())),
    };
    let item = match Ts::from_str(item_src) {
        Ok(t) => t,
        Err(e) => return format!("{{\"ev\":\"Expand\",\"id\":{},\"macro\":{},\"verdict\":\"badinput\",\"msg\":{}}}", js(id), js(mac), js(&e.to_string())),
    };
    let input_skel = syn::parse2::<syn::Item>(item.clone()).map(|i| item_skeleton(&i)).unwrap_or_else(|_| "{}".to_string());
    let first = expand(mac, attr.clone(), item.clone());
    let second = expand(mac, attr, item);
    let (verdict, msg, out) = match &first {
        Err(m) if m.contains("proc-macro-error API cannot be used outside of") => ("dirty", m.clone(), None),
        Err(m) => ("crash", m.clone(), None),
        Ok(ts) if has_compile_error(ts) => ("dirty", "compile_error".to_string(), Some(ts.clone())),
        Ok(ts) => ("clean", String::new(), Some(ts.clone())),
    };
    let deterministic = match (&first, &second) {
        (Ok(a), Ok(b)) => a.to_string() == b.to_string(),
        (Err(a), Err(b)) => a == b,
        _ => false,
    };
    let mut line = format!(
        "{{\"ev\":\"Expand\",\"id\":{},\"macro\":{},\"verdict\":{},\"msg\":{},\"deterministic\":{},\"input\":{}",
        js(id), js(mac), js(verdict), js(&msg), deterministic, input_skel
    );
    let mut parsed_ok = false;
    if let (Some(ts), "clean") = (&out, verdict) {
        if let Ok(file) = syn::parse2::<syn::File>(ts.clone()) {
            parsed_ok = true;
            let first_item = file.items.first().map(item_skeleton).unwrap_or_else(|| "{}".to_string());
            let mut types = vec![];
            let mut consts = vec![];
            let mut fns = vec![];
            let mut impls = vec![];
            let mut entry_points: Vec<String> = vec![];
            let mut mods: Vec<String> = vec![];
            for it in file.items.iter().skip(1) {
                if let syn::Item::Mod(m) = it {
                    mods.push(js(&m.ident.to_string()));
                    if let Some((_, inner)) = &m.content {
                        if m.ident == "entry_points" {
                            for x in inner {
                                if let syn::Item::Fn(f) = x {
                                    entry_points.push(format!(
                                        "{{\"n\":{},\"h\":{}}}",
                                        js(&f.sig.ident.to_string()),
                                        js(&hash_str(&toks(f)))
                                    ));
                                }
                            }
                        } else {
                            collect_types(inner, &mut types, &mut consts, &mut fns, &mut impls);
                        }
                    }
                }
            }
            let _ = write!(
                line,
                ",\"item\":{},\"mods\":{},\"entry_points\":{},\"types\":{},\"consts\":{},\"fns\":{},\"impls\":{},\"digest\":{}",
                first_item, jarr(&mods), jarr(&entry_points), jarr(&types), jarr(&consts), jarr(&fns), jarr(&impls), js(&hash_str(&ts.to_string()))
            );
        }
    }
    let _ = write!(line, ",\"parsed\":{}}}", parsed_ok);
    line
}


// ------------------------------------------------------------------------------------------------
// Real sources: every item annotated with one of the three macros in the given directories.

fn macro_of(a: &syn::Attribute) -> Option<&'static str> {
    let last = a.path().segments.last()?.ident.to_string();
    let first = a.path().segments.first()?.ident.to_string();
    if a.path().segments.len() > 2 || (a.path().segments.len() == 2 && first != "sylvia" && first != "sylvia_derive") {
        return None;
    }
    match last.as_str() {
        "contract" => Some("contract"),
        "interface" => Some("interface"),
        "entry_points" => Some("entry_points"),
        _ => None,
    }
}

fn attr_args(a: &syn::Attribute) -> String {
    match &a.meta {
        syn::Meta::List(l) => l.tokens.to_string(),
        _ => String::new(),
    }
}

fn scan_items(items: &[syn::Item], file: &str, out: &mut String, n: &mut usize) {
    for it in items {
        let attrs: Vec<syn::Attribute> = match it {
            syn::Item::Impl(i) => i.attrs.clone(),
            syn::Item::Trait(t) => t.attrs.clone(),
            syn::Item::Mod(m) => {
                if let Some((_, inner)) = &m.content {
                    scan_items(inner, file, out, n);
                }
                continue;
            }
            _ => continue,
        };
        for (ix, a) in attrs.iter().enumerate() {
            if let Some(mac) = macro_of(a) {
                // the macro sees the item with the attributes that follow it (and inert ones before it)
                let rest: Vec<syn::Attribute> = attrs
                    .iter()
                    .enumerate()
                    .filter(|(j, b)| *j > ix || (*j < ix && macro_of(b).is_none()))
                    .map(|(_, b)| b.clone())
                    .collect();
                let mut item = it.clone();
                match &mut item {
                    syn::Item::Impl(i) => i.attrs = rest,
                    syn::Item::Trait(t) => t.attrs = rest,
                    _ => {}
                }
                *n += 1;
                let id = format!("{}#{}:{}", file, n, mac);
                out.push_str(&project(&id, mac, &attr_args(a), &item.to_token_stream().to_string()));
                out.push('\n');
            }
        }
    }
}

fn scan_dir(dir: &std::path::Path, out: &mut String, n: &mut usize) {
    let mut entries: Vec<_> = match std::fs::read_dir(dir) {
        Ok(r) => r.filter_map(|e| e.ok()).map(|e| e.path()).collect(),
        Err(_) => return,
    };
    entries.sort();
    for p in entries {
        if p.is_dir() {
            if p.file_name().map(|f| f == "target").unwrap_or(false) {
                continue;
            }
            scan_dir(&p, out, n);
        } else if p.extension().map(|e| e == "rs").unwrap_or(false) {
            if let Ok(text) = std::fs::read_to_string(&p) {
                if let Ok(file) = syn::parse_file(&text) {
                    scan_items(&file.items, &p.to_string_lossy(), out, n);
                }
            }
        }
    }
}

#[test]
fn verif_hook_run() {
    let inp = match std::env::var("VERIF_INPROC_IN") {
        Ok(p) => p,
        Err(_) => return, // nothing to do when the harness is not driving this test
    };
    let outp = std::env::var("VERIF_INPROC_OUT").expect("VERIF_INPROC_OUT");
    std::panic::set_hook(Box::new(|_| {}));
    let mut out = String::new();
    if let Some(dirs) = inp.strip_prefix("scan:") {
        let mut n = 0usize;
        for d in dirs.split(':') {
            scan_dir(std::path::Path::new(d), &mut out, &mut n);
        }
        let _ = std::panic::take_hook();
        std::fs::write(&outp, out).expect("write output");
        return;
    }
    let text = std::fs::read_to_string(&inp).expect("read input");
    let mut cur: Option<(String, String, String)> = None;
    let mut body = String::new();
    let flush = |cur: &Option<(String, String, String)>, body: &str, out: &mut String| {
        if let Some((id, mac, attr)) = cur {
            out.push_str(&project(id, mac, attr, body));
            out.push('\n');
        }
    };
    for l in text.lines() {
        if let Some(rest) = l.strip_prefix("//@@ ") {
            flush(&cur, &body, &mut out);
            body.clear();
            let mut it = rest.splitn(3, ' ');
            let id = it.next().unwrap_or("").to_string();
            let mac = it.next().unwrap_or("").to_string();
            let attr = it.next().unwrap_or("").to_string();
            cur = Some((id, mac, attr));
        } else {
            body.push_str(l);
            body.push('\n');
        }
    }
    flush(&cur, &body, &mut out);
    let _ = std::panic::take_hook();
    std::fs::write(&outp, out).expect("write output");
}
