"""Renders the syntactic item descriptions emitted by MC_Static!EmitItems as Rust source text for the
in-process expansion harness (harness/inproc/harness.rs).  A dumb pretty printer: no choices."""


def attr(a):
    p, t = a["p"], a["t"]
    if t == "":
        return "#[%s]" % p
    if t.startswith("= "):
        return "#[%s %s]" % (p, t)
    return "#[%s(%s)]" % (p, t)


def attrs(lst, indent):
    return "".join("%s%s\n" % (indent, attr(a)) for a in lst)


def params(m):
    out = []
    for p in m["params"]:
        out.append("%s%s: %s" % ("".join(attr(a) + " " for a in p["attrs"]), p["n"], p["ty"]))
    return out


def member(m, in_trait):
    ind = "    "
    s = attrs(m["attrs"], ind)
    if m["name"] == "new" and m["ctx"] == "" and not m["params"]:
        return s + "%s%s fn new() -> Self { %s }\n" % (ind, m["vis"], m["body"])
    ctxattr = (m.get("ctxattr", "") + " ") if m.get("ctxattr") else ""
    ps = ["&self"] + (["%sctx: %s" % (ctxattr, m["ctx"])] if m["ctx"] else []) + params(m)
    vis = (m["vis"] + " ") if m["vis"] else ""
    head = "%s%sfn %s(%s) -> %s" % (ind, vis, m["name"], ", ".join(ps), m["ret"])
    if in_trait and m["body"] == "":
        return s + head + ";\n"
    return s + head + " { %s }\n" % m["body"]


def render(it):
    gen = ("<%s>" % ", ".join(it["generics"])) if it["generics"] else ""
    wh = (" where %s" % ", ".join(w["text"] for w in it["wheres"])) if it["wheres"] else ""
    s = attrs(it["attrs"], "")
    if it["macro"] == "interface":
        s += "pub trait %s%s {\n%s" % (it["self_ty"], wh, "" if it.get("noerror") else "    type Error: From<StdError>;\n")
        for a in it["assoc"]:
            s += "    type %s;\n" % a
        for m in it["members"]:
            s += member(m, True)
        s += "}\n"
    else:
        s += "impl%s %s%s {\n" % (gen, it["self_ty"], wh)
        for m in it["members"]:
            s += member(m, False)
        s += "}\n"
    return s


def render_all(items):
    out = []
    for it in items:
        out.append("//@@ %s %s %s\n" % (it["id"], it["macro"], it["mattr"]))
        out.append(render(it))
    return "".join(out)
