"""Generator for the type-parameter-name family of C19 (configurations emitted by Hygiene.tla)."""
import os
import re

from .routing import cargo_shard

GENERIC = '''
#[allow(dead_code, unused_variables, unused_imports, non_camel_case_types, clippy::all)]
pub mod g_%(low)s {
    use sylvia::ctx::{ExecCtx, InstantiateCtx, QueryCtx, SudoCtx};
    use sylvia::cw_std::{Empty, Response, StdError};
    use verif_rrt::{ContractError, QResp};
    use std::marker::PhantomData;
    thread_local! { pub static RAN: std::cell::RefCell<Vec<&'static str>> = const { std::cell::RefCell::new(Vec::new()) }; }
    pub struct GCtr<%(N)s>(PhantomData<%(N)s>);
    #[sylvia::entry_points(generics<Empty>)]
    #[sylvia::contract]
    #[sv::error(ContractError)]
    impl<%(N)s> GCtr<%(N)s> where %(N)s: sylvia::types::CustomMsg + 'static {
        pub const fn new() -> Self { GCtr(PhantomData) }
        #[sv::msg(instantiate)]
        fn instantiate(&self, ctx: InstantiateCtx, v: %(N)s) -> Result<Response, ContractError> { Ok(Response::new()) }
        #[sv::msg(exec)]
        fn put(&self, ctx: ExecCtx, v: %(N)s) -> Result<Response, ContractError> { RAN.with(|r| r.borrow_mut().push("put")); Ok(Response::new()) }
        #[sv::msg(query)]
        fn get(&self, ctx: QueryCtx, v: %(N)s) -> Result<QResp, ContractError> { RAN.with(|r| r.borrow_mut().push("get")); Ok(QResp { h: "get".into(), code: 1 }) }
        #[sv::msg(sudo)]
        fn poke(&self, ctx: SudoCtx, v: Option<%(N)s>) -> Result<Response, ContractError> { Ok(Response::new()) }
    }
    pub fn smoke() -> (bool, String, String) {
        use sylvia::cw_std::testing::{message_info, mock_dependencies, mock_env};
        let mut deps = mock_dependencies();
        let e: Result<sv::ContractExecMsg<Empty>, _> = sylvia::cw_std::from_json(b"{\\"put\\":{\\"v\\":{}}}");
        let q: Result<sv::ContractQueryMsg<Empty>, _> = sylvia::cw_std::from_json(b"{\\"get\\":{\\"v\\":{}}}");
        let info = message_info(&sylvia::cw_std::Addr::unchecked("s"), &[]);
        let a = e.map(|m| entry_points::execute(deps.as_mut(), mock_env(), info, m).is_ok()).unwrap_or(false);
        let b = q.map(|m| entry_points::query(deps.as_ref(), mock_env(), m).is_ok()).unwrap_or(false);
        let ran = RAN.with(|r| r.borrow().clone());
        (a && b, ran.first().copied().unwrap_or("").to_string(), ran.get(1).copied().unwrap_or("").to_string())
    }
}
'''

ASSOC = '''
#[allow(dead_code, unused_variables, unused_imports, non_camel_case_types, clippy::all)]
pub mod a_%(low)s {
    use sylvia::ctx::{ExecCtx, InstantiateCtx, QueryCtx, SudoCtx};
    use sylvia::cw_std::{Empty, Response, StdError};
    use verif_rrt::{ContractError, QResp};
    thread_local! { pub static RAN: std::cell::RefCell<Vec<&'static str>> = const { std::cell::RefCell::new(Vec::new()) }; }
    pub mod iface {
        use super::*;
        #[sylvia::interface]
        #[sv::custom(msg=sylvia::cw_std::Empty, query=sylvia::cw_std::Empty)]
        pub trait Iface {
            type Error: From<StdError>;
            type %(N)s: sylvia::types::CustomMsg;
            #[sv::msg(exec)]
            fn put(&self, ctx: ExecCtx, v: Self::%(N)s) -> Result<Response, Self::Error>;
            #[sv::msg(query)]
            fn get(&self, ctx: QueryCtx, v: Self::%(N)s) -> Result<QResp, Self::Error>;
        }
    }
    pub struct Ctr;
    impl iface::Iface for Ctr {
        type Error = ContractError;
        type %(N)s = Empty;
        fn put(&self, ctx: ExecCtx, v: Empty) -> Result<Response, ContractError> { RAN.with(|r| r.borrow_mut().push("put")); Ok(Response::new()) }
        fn get(&self, ctx: QueryCtx, v: Empty) -> Result<QResp, ContractError> { RAN.with(|r| r.borrow_mut().push("get")); Ok(QResp { h: "get".into(), code: 1 }) }
    }
    #[sylvia::entry_points]
    #[sylvia::contract]
    #[sv::error(ContractError)]
    #[sv::messages(iface as Iface1)]
    impl Ctr {
        pub const fn new() -> Self { Ctr }
        #[sv::msg(instantiate)]
        fn instantiate(&self, ctx: InstantiateCtx) -> Result<Response, ContractError> { Ok(Response::new()) }
    }
    pub fn smoke() -> (bool, String, String) {
        use sylvia::cw_std::testing::{message_info, mock_dependencies, mock_env};
        let mut deps = mock_dependencies();
        let e: Result<sv::ContractExecMsg, _> = sylvia::cw_std::from_json(b"{\\"put\\":{\\"v\\":{}}}");
        let q: Result<sv::ContractQueryMsg, _> = sylvia::cw_std::from_json(b"{\\"get\\":{\\"v\\":{}}}");
        let info = message_info(&sylvia::cw_std::Addr::unchecked("s"), &[]);
        let a = e.map(|m| entry_points::execute(deps.as_mut(), mock_env(), info, m).is_ok()).unwrap_or(false);
        let b = q.map(|m| entry_points::query(deps.as_ref(), mock_env(), m).is_ok()).unwrap_or(false);
        let ran = RAN.with(|r| r.borrow().clone());
        (a && b, ran.first().copied().unwrap_or("").to_string(), ran.get(1).copied().unwrap_or("").to_string())
    }
}
'''

QUALIFIED = '''
#[allow(dead_code, unused_variables, unused_imports, non_camel_case_types, clippy::all)]
pub mod q_%(low)s {
    use sylvia::ctx::{ExecCtx, InstantiateCtx, QueryCtx, SudoCtx};
    use sylvia::cw_std::{Empty, Response, StdError};
    use verif_rrt::{ContractError, QResp};
    use std::marker::PhantomData;
    thread_local! { pub static RAN: std::cell::RefCell<Vec<&'static str>> = const { std::cell::RefCell::new(Vec::new()) }; }
    pub mod other {
        /// a concrete type that happens to be called like the contract's type parameter
        #[sylvia::cw_schema::cw_serde(crate = "sylvia::cw_schema")]
        #[derive(Default)]
        pub struct %(N)s {
            pub n: u32,
        }
    }
    pub struct GCtr<%(N)s>(PhantomData<%(N)s>);
    #[sylvia::entry_points(generics<Empty>)]
    #[sylvia::contract]
    #[sv::error(ContractError)]
    impl<%(N)s> GCtr<%(N)s> where %(N)s: sylvia::types::CustomMsg + 'static {
        pub const fn new() -> Self { GCtr(PhantomData) }
        #[sv::msg(instantiate)]
        fn instantiate(&self, ctx: InstantiateCtx, v: %(N)s) -> Result<Response, ContractError> { Ok(Response::new()) }
        #[sv::msg(exec)]
        fn put(&self, ctx: ExecCtx, v: other::%(N)s) -> Result<Response, ContractError> { RAN.with(|r| r.borrow_mut().push("put")); Ok(Response::new()) }
        #[sv::msg(query)]
        fn get(&self, ctx: QueryCtx, v: %(N)s) -> Result<QResp, ContractError> { RAN.with(|r| r.borrow_mut().push("get")); Ok(QResp { h: "get".into(), code: 1 }) }
        #[sv::msg(sudo)]
        fn poke(&self, ctx: SudoCtx, v: Option<other::%(N)s>) -> Result<Response, ContractError> { Ok(Response::new()) }
    }
    pub fn smoke() -> (bool, String, String) {
        use sylvia::cw_std::testing::{message_info, mock_dependencies, mock_env};
        let mut deps = mock_dependencies();
        // the exec and sudo messages do not use the parameter: they are named without type arguments
        let built: sv::ExecMsg = sv::ExecMsg::put(other::%(N)s { n: 1 });
        let _sudo: sv::SudoMsg = sv::SudoMsg::poke(None);
        let same = sylvia::cw_std::to_json_string(&built).map(|t| t == "{\\"put\\":{\\"v\\":{\\"n\\":1}}}").unwrap_or(false);
        let e: Result<sv::ContractExecMsg<Empty>, _> = sylvia::cw_std::from_json(b"{\\"put\\":{\\"v\\":{\\"n\\":1}}}");
        let q: Result<sv::ContractQueryMsg<Empty>, _> = sylvia::cw_std::from_json(b"{\\"get\\":{\\"v\\":{}}}");
        let info = message_info(&sylvia::cw_std::Addr::unchecked("s"), &[]);
        let a = e.map(|m| entry_points::execute(deps.as_mut(), mock_env(), info, m).is_ok()).unwrap_or(false);
        let b = q.map(|m| entry_points::query(deps.as_ref(), mock_env(), m).is_ok()).unwrap_or(false);
        let ran = RAN.with(|r| r.borrow().clone());
        (a && b && same, ran.first().copied().unwrap_or("").to_string(), ran.get(1).copied().unwrap_or("").to_string())
    }
}
'''

CUSTOMQ = '''
#[allow(dead_code, unused_variables, unused_imports, non_camel_case_types, clippy::all)]
pub mod c_%(low)s {
    use sylvia::ctx::{ExecCtx, InstantiateCtx, QueryCtx, SudoCtx};
    use sylvia::cw_std::{Empty, Response, StdError};
    use verif_rrt::{ContractError, QResp};
    use std::marker::PhantomData;
    thread_local! { pub static RAN: std::cell::RefCell<Vec<&'static str>> = const { std::cell::RefCell::new(Vec::new()) }; }
    pub struct GCtr<%(N)s>(PhantomData<%(N)s>);
    #[sylvia::entry_points(generics<Empty>)]
    #[sylvia::contract]
    #[sv::error(ContractError)]
    #[sv::custom(query=%(N)s)]
    impl<%(N)s> GCtr<%(N)s> where %(N)s: sylvia::types::CustomQuery + 'static {
        pub const fn new() -> Self { GCtr(PhantomData) }
        #[sv::msg(instantiate)]
        fn instantiate(&self, ctx: InstantiateCtx<%(N)s>) -> Result<Response, ContractError> { Ok(Response::new()) }
        #[sv::msg(exec)]
        fn %(low)s(&self, ctx: ExecCtx<%(N)s>, v: u32) -> Result<Response, ContractError> { RAN.with(|r| r.borrow_mut().push("put")); Ok(Response::new()) }
        #[sv::msg(query)]
        fn get(&self, ctx: QueryCtx<%(N)s>, v: u32) -> Result<QResp, ContractError> { RAN.with(|r| r.borrow_mut().push("get")); Ok(QResp { h: "get".into(), code: 1 }) }
        #[sv::msg(sudo)]
        fn poke(&self, ctx: SudoCtx<%(N)s>, v: Option<u32>) -> Result<Response, ContractError> { Ok(Response::new()) }
    }
    pub fn smoke() -> (bool, String, String) {
        use sylvia::cw_std::testing::{message_info, mock_dependencies, mock_env};
        let mut deps = mock_dependencies();
        let e: Result<sv::ContractExecMsg<Empty>, _> = sylvia::cw_std::from_json(b"{\\"%(low)s\\":{\\"v\\":1}}");
        let q: Result<sv::ContractQueryMsg<Empty>, _> = sylvia::cw_std::from_json(b"{\\"get\\":{\\"v\\":1}}");
        let info = message_info(&sylvia::cw_std::Addr::unchecked("s"), &[]);
        let a = e.map(|m| entry_points::execute(deps.as_mut(), mock_env(), info, m).is_ok()).unwrap_or(false);
        let b = q.map(|m| entry_points::query(deps.as_ref(), mock_env(), m).is_ok()).unwrap_or(false);
        let ran = RAN.with(|r| r.borrow().clone());
        (a && b, ran.first().copied().unwrap_or("").to_string(), ran.get(1).copied().unwrap_or("").to_string())
    }
}
'''

TEMPLATES = {"generic_contract": ("g_", GENERIC), "interface_assoc": ("a_", ASSOC), "generic_qualified": ("q_", QUALIFIED), "generic_custom_query": ("c_", CUSTOMQ)}


def modname(cfg):
    return TEMPLATES[cfg["shape"]][0] + cfg["param"].lower()


def generate(cfgs, out_dir, harness_dir, repo, shards, write_if_changed, exclude=()):
    cfgs = [c for c in cfgs if modname(c) not in exclude]
    shards = max(1, min(shards, len(cfgs)))
    groups = [cfgs[i::shards] for i in range(shards)]
    bins, spans, members = [], {}, []
    for gi, g in enumerate(groups):
        name = "hshard%d" % gi
        members.append(name)
        d = os.path.join(out_dir, name)
        write_if_changed(os.path.join(d, "Cargo.toml"), cargo_shard(name, harness_dir, repo))
        src = "// generated by harness/gen/hygiene.py -- do not edit\n"
        for c in g:
            start = src.count("\n") + 1
            t = TEMPLATES[c["shape"]][1] % {"N": c["param"], "low": c["param"].lower()}
            # what the contract publishes under a name: the schema name of its contract-level exec message, without the module path
            ty = re.search(r"let e: Result<(sv::ContractExecMsg(?:<[^>]*>)?), _>", t).group(1)
            k = t.rstrip().rfind("}")
            t = (t[:k] + "    pub fn schema_title() -> String {\n        let n = <%s as sylvia::cw_schema::schemars::JsonSchema>::schema_name();\n"
                 "        n.split_once(\"::sv::\").map(|(_, b)| b.to_string()).unwrap_or(n)\n    }\n" % ty + t[k:])
            src += t
            spans[(name, modname(c))] = (start, src.count("\n"))
        src += "\nfn main() {\n    let a: Vec<String> = std::env::args().collect();\n    verif_rrt::rt::open_trace(&a[1]);\n"
        for c in g:
            src += ("    { let (ok, h, q) = %s::smoke(); verif_rrt::rt::emit(verif_rrt::serde_json::json!({\"ev\":\"Hygiene\",\"param\":\"%s\",\"shape\":\"%s\","
                    "\"built\":true,\"ran\":ok,\"handler\":h,\"query\":q,\"schema\":%s::schema_title()})); }\n") % (modname(c), c["param"], c["shape"], modname(c))
        src += "    verif_rrt::rt::close_trace();\n}\n"
        write_if_changed(os.path.join(d, "src", "main.rs"), src)
        bins.append((name, [modname(c) for c in g]))
    ws = "[workspace]\nmembers = [%s]\nresolver = \"2\"\n\n[profile.dev]\ndebug = false\nincremental = false\n" % ", ".join('"%s"' % m for m in members)
    write_if_changed(os.path.join(out_dir, "Cargo.toml"), ws)
    write_if_changed(os.path.join(out_dir, ".cargo", "config.toml"), "[net]\noffline = true\n")
    return bins, spans
