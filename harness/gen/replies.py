"""Generator for the reply corpus: MC_Reply!EmitTables program descriptions -> Rust sources.
Renders text only; every choice (tables, stimuli) is the specification's."""
import json
import os

from .routing import TYPES, cargo_shard, rename_crate

PAYLOAD = {"raw": [("payload", "Binary")], "bin": [("payload", "Binary")], "t1": [("p1", "u32")], "t2": [("p1", "u32"), ("p2", "String")],
           "t3": [("p1", "u32"), ("p2", "String"), ("p3", "Nested")],
           "tn": [("gas_limit", "u32"), ("msg", "String"), ("id", "Nested")],
           "tm": [("payload", "u32"), ("data", "String"), ("result", "Nested")],
           "te": [("error", "String"), ("gas_used", "u32"), ("events", "Nested")],
           "td": [("deps", "u32"), ("env", "String"), ("msg_responses", "Nested")],
           "ts": [("error", "String"), ("p2", "u32")]}      # (an error handler's payload parameter called like the dispatcher's own error text, and of its type)
DATA_TY = {"plainO": "Option<Nested>", "plain": "Nested", "opt": "Option<Nested>", "raw": "Binary", "rawopt": "Option<Binary>",
           "inst": "MsgInstantiateContractResponse", "instopt": "Option<MsgInstantiateContractResponse>"}
DATA_ATTR = {"plainO": "#[sv::data]", "plain": "#[sv::data]", "opt": "#[sv::data(opt)]", "raw": "#[sv::data(raw)]", "rawopt": "#[sv::data(raw, opt)]",
             "inst": "#[sv::data(instantiate)]", "instopt": "#[sv::data(instantiate, opt)]"}


DATA_ATTR_B = {"rawopt": "#[sv::data(opt, raw)]", "instopt": "#[sv::data(opt, instantiate)]"}


def legacy_method_src(prog, m):
    ok = "true" if m["outcome"] == "ok" else "false"
    n = m["name"]
    decoy = ""
    if prog.get("decoy"):      # a handler of another kind that is called `reply` and takes a Reply: it must never be handed a reply
        decoy = ("        #[sv::msg(sudo)]\n"
                 "        fn reply(&self, ctx: sylvia::ctx::SudoCtx, reply: Reply) -> Result<Response, ContractError> {\n"
                 "            rec::reply_handler(\"%s\", \"decoy:sudo reply\", serde_json::json!({}), serde_json::json!({\"t\":\"-\"}), rec::reply_proj(&reply), vec![]);\n"
                 "            rec::resp(\"decoy\", 7, true)\n        }\n") % prog["id"]
    # (stdret: the method returns the standard error type, which converts into the contract's declared one)
    rty = "Result<Response, StdError>" if prog.get("stdret") else "Result<Response, ContractError>"
    fin = ("rec::resp::<HandlerErr>(\"%s\", 7, %s).map_err(|e| StdError::generic_err(e.to_string()))" if prog.get("stdret") else "rec::resp(\"%s\", 7, %s)") % (n, ok)
    return decoy + ("        #[sv::msg(reply)]\n        #[allow(deprecated)]\n"
            "        fn %s(&self, ctx: sylvia::types::ReplyCtx, reply: Reply) -> %s {\n"
            "            rec::reply_handler(\"%s\", \"%s\", rec::ctx_reply_legacy(&ctx), serde_json::json!({\"t\":\"-\"}), rec::reply_proj(&reply), vec![]);\n"
            "            rec::touch(ctx.deps.storage, \"%s\");\n            %s\n        }\n") % (n, rty, prog["id"], n, n, fin)


def method_src(prog, m):
    if prog.get("family") == "legacy":
        return legacy_method_src(prog, m)
    params = []
    recs = []
    second = '"none"'
    if m["on"] == "success":
        if m["data"] != "none":
            attr = DATA_ATTR_B[m["data"]] if m.get("spell") == "b" and m["data"] in DATA_ATTR_B else DATA_ATTR[m["data"]]
            if m.get("spell") == "c" and m["data"] == "plain":
                attr = "#[sv::data()]"
            params.append("%s data: %s" % (attr, DATA_TY[m["data"]]))
            if m["data"] in ("inst", "instopt"):
                recs.append("let dataj = rec::inst_data(&data);")
            else:
                recs.append("let dataj = rec::enc(&data);")
        else:
            recs.append("let dataj = serde_json::json!({\"t\":\"-\"});")
        recs.append("let secondj = serde_json::json!({\"kind\":\"none\",\"text\":\"\",\"ok\":false,\"cf\":false});")
    elif m["on"] == "error":
        params.append("sm_error: String")
        recs.append("let dataj = serde_json::json!({\"t\":\"-\"});")
        recs.append("let secondj = serde_json::json!({\"kind\":\"error\",\"cf\":sm_error.contains(\"callee failed\"),\"text\":sm_error,\"ok\":false});")
    else:
        params.append("sm_result: SubMsgResult")
        recs.append("let dataj = serde_json::json!({\"t\":\"-\"});")
        recs.append("let secondj = serde_json::json!({\"kind\":\"result\",\"cf\":rec::result_text(&sm_result).contains(\"callee failed\"),\"text\":rec::result_text(&sm_result),\"ok\":sm_result.is_ok(),\"full\":rec::result_full(&sm_result)});")
    pay = PAYLOAD[m["payload"]]
    for n, t in pay:
        attr = "#[sv::payload(raw)] " if m["payload"] == "raw" else ""
        params.append("%s%s: %s" % (attr, n, t))
    payj = ", ".join("rec::enc(&%s)" % n for n, _ in pay)
    attr = "#[sv::msg(reply%s, reply_on=%s)]" % (
        ("".join(", handlers=[%s]" % h for h in m["handlers"]) if m.get("hsplit") else (", handlers=[%s]" % ", ".join(m["handlers"]))) if m["handlers"] else "", m["on"])
    ok = "true" if m["outcome"] == "ok" else "false"
    body = ("            %s\n            rec::reply_handler(\"%s\", \"%s\", rec::ctx_reply(&ctx), dataj, secondj, vec![%s]);\n"
            "            rec::touch(ctx.deps.storage, \"%s\");\n            rec::resp(\"%s\", 7, %s)\n") % (
        "\n            ".join(recs), prog["id"], m["name"], payj, m["name"], m["name"], ok)
    return "        %s\n        fn %s(&self, ctx: ReplyCtx, %s) -> Result<Response, ContractError> {\n%s        }\n" % (
        attr, m["name"], ", ".join(params), body)


LONG = {"u32": "4000000000u32", "String": '"s".repeat(100 * 1024)', "Nested": 'Nested { a: 3, b: "n".repeat(100 * 1024) }',
        "Binary": "Binary::from(vec![7u8; 100 * 1024])"}


def pay_arg_list(sig, val):
    out = []
    for i, (n, t) in enumerate(PAYLOAD[sig]):
        ty = {"u32": "u32", "String": "String", "Nested": "Nested", "Binary": "Binary"}[t]
        out.append(LONG[ty] if val == 2 else TYPES[ty][1][(val + i) % 2][0])      # (value tuple 2: long values)
    return out


def program_src(prog):
    mod = prog["id"].lower()
    o = []
    o.append("#[allow(dead_code, unused_variables, unused_imports, clippy::all)]\npub mod %s {\n" % mod)
    o.append("    use sylvia::ctx::{ExecCtx, InstantiateCtx, ReplyCtx};\n"
             "    use sylvia::cw_std::{BankMsg, Binary, CosmosMsg, DepsMut, Empty, Env, Reply, Response, StdError, SubMsg, SubMsgResult, Uint128, WasmMsg};\n"
             "    use sylvia::cw_utils::MsgInstantiateContractResponse;\n"
             "    use verif_rrt::{rec, serde_json, ContractError, Deps, HandlerErr, Nested, ReplyVt};\n\n"
             "    pub struct Ctr;\n\n"
             "    #[sylvia::entry_points]\n    #[sylvia::contract]\n    #[sv::error(ContractError)]\n" + ("" if prog.get("family") == "legacy" else "    #[sv::features(replies)]\n") +
             "    impl Ctr {\n        pub const fn new() -> Self {\n            Ctr\n        }\n"
             "        #[sv::msg(instantiate)]\n        fn instantiate(&self, ctx: InstantiateCtx) -> Result<Response, HandlerErr> {\n"
             "            Ok(Response::new())\n        }\n")
    for m in prog["methods"]:
        o.append(method_src(prog, m))
    legacy = prog.get("family") == "legacy"
    if not legacy:
        # the transaction of the chain corpus (Chain.tla): build a sub-message with the generated builder of handler name `h`
        # around the message `recv` describes, and return it
        o.append("        #[sv::msg(exec)]\n"
                 "        fn fire(&self, ctx: ExecCtx, h: String, recv: String, val: u32) -> Result<Response, ContractError> {\n"
                 "            rec::touch(ctx.deps.storage, \"fire\");\n"
                 "            rec::note_target(ctx.deps.storage, &recv);\n"
                 "            let built = build(&h, &recv, val);\n"
                 "            rec::chain_built(\"%s\", &h, &built);\n"
                 "            match built {\n"
                 "                Some(Ok((sm, _, _))) => Ok(Response::new().add_submessage(sm).set_data(b\"fire\".to_vec())),\n"
                 "                Some(Err(e)) => Err(ContractError::Std(StdError::generic_err(e))),\n"
                 "                None => Err(ContractError::Std(StdError::generic_err(\"no builder\"))),\n"
                 "            }\n        }\n" % prog["id"])
    o.append("    }\n\n")
    o.append("    fn ids() -> Vec<(&'static str, u64)> {\n        vec![%s]\n    }\n\n" % ", ".join(
        '("%s", sv::%s)' % (h["h"], h["const"]) for h in prog["handlers"]))
    o.append("    fn build(h: &str, recv: &str, val: u32) -> Option<Result<(SubMsg<Empty>, bool, Vec<serde_json::Value>), String>> {\n"
             "        %s\n        match (h, val) {\n" % ("" if prog.get("family") == "legacy" else "use sv::SubMsgMethods;"))
    for h in prog["handlers"]:
        for val in (0, 1, 2):
            lets = "".join("let a%d = %s; " % (i, a) for i, a in enumerate(pay_arg_list(h["payload"], val)))
            names = ", ".join("a%d.clone()" % i for i in range(len(PAYLOAD[h["payload"]])))
            encs = ", ".join("rec::enc(&a%d)" % i for i in range(len(PAYLOAD[h["payload"]])))
            o.append("            (\"%s\", %d) => { %sSome(rec::build_with(recv, vec![%s], |r| match r {\n"
                     "                rec::Recv::Sub(s) => SubMsgMethods::<Empty>::%s(s, %s),\n"
                     "                rec::Recv::Wasm(w) => SubMsgMethods::<Empty>::%s(w, %s),\n"
                     "                rec::Recv::Cosmos(c) => SubMsgMethods::<Empty>::%s(c, %s),\n"
                     "            })) }\n" % (h["h"], val, lets, encs, h["h"], names, h["h"], names, h["h"], names))
    o.append("            _ => None,\n        }\n    }\n\n")
    o.append("    fn dispatch(via: &str, deps: DepsMut, env: Env, reply: Reply) -> Result<Response, serde_json::Value> {\n"
             "        match via {\n"
             "            \"fn\" => %s.map_err(|e| verif_rrt::proj_err(&e)),\n" % (
                 "entry_points::reply(deps, env, reply)" if prog.get("family") == "legacy" else "sv::dispatch_reply(deps, env, reply, Ctr::new())") +
             "            \"ep\" => entry_points::reply(deps, env, reply).map_err(|e| verif_rrt::proj_err(&e)),\n"
             "            _ => <dyn sylvia::cw_multi_test::Contract<Empty, Empty>>::reply(&Ctr::new(), deps, env, reply).map_err(|e| verif_rrt::proj_anyhow(&e)),\n"
             "        }\n    }\n\n")
    o.append("    fn probe(kind: &str, deps: DepsMut, env: Env, doc: &[u8]) -> (bool, bool) {\n"
             "        use sylvia::cw_std::from_json;\n"
             "        let info = sylvia::cw_std::testing::message_info(&sylvia::cw_std::Addr::unchecked(\"prober\"), &[]);\n"
             "        match kind {\n"
             "            \"exec\" => match from_json::<sv::ContractExecMsg>(doc) { Ok(m) => (true, entry_points::execute(deps, env, info, m).is_ok()), Err(_) => (false, false) },\n"
             "            \"query\" => match from_json::<sv::ContractQueryMsg>(doc) { Ok(m) => (true, entry_points::query(deps.as_ref(), env, m).is_ok()), Err(_) => (false, false) },\n"
             "            _ => match from_json::<sv::ContractSudoMsg>(doc) { Ok(m) => (true, entry_points::sudo(deps, env, m).is_ok()), Err(_) => (false, false) },\n"
             "        }\n    }\n\n")
    boxed = "None" if legacy else "Some(boxed)"
    if not legacy:
        o.append("    fn boxed() -> Box<dyn sylvia::cw_multi_test::Contract<Empty, Empty>> {\n        Box::new(Ctr::new())\n    }\n\n")
    o.append("    pub fn vt() -> ReplyVt {\n        ReplyVt { id: \"%s\", ids, build, dispatch, probe, boxed: %s }\n    }\n}\n" % (prog["id"], boxed))
    return "".join(o)


def generate(progs, out_dir, harness_dir, repo, shards, prefix, write_if_changed, exclude=(), krate="sylvia"):
    progs = [p for p in progs if p["id"] not in exclude]
    shards = max(1, min(shards, len(progs)))
    groups = [[] for _ in range(shards)]
    for i, p in enumerate(progs):
        groups[i % shards].append(p)
    bins = []
    members = []
    spans = {}
    for gi, g in enumerate(groups):
        name = "%s%d" % (prefix, gi)
        members.append(name)
        d = os.path.join(out_dir, name)
        write_if_changed(os.path.join(d, "Cargo.toml"), cargo_shard(name, harness_dir, repo, krate))
        src = "// generated by harness/gen/replies.py from TLC's tables -- do not edit\n"
        for p in g:
            start = src.count("\n") + 1
            src += rename_crate(program_src(p), krate)
            spans[(name, p["id"])] = (start, src.count("\n"))
        src += "\nfn main() {\n    verif_rrt::reply_main_with(&[%s]);\n}\n" % ", ".join("%s::vt()" % p["id"].lower() for p in g)
        write_if_changed(os.path.join(d, "src", "main.rs"), src)
        bins.append((name, [p["id"] for p in g]))
    ws = "[workspace]\nmembers = [%s]\nresolver = \"2\"\n\n[profile.dev]\ndebug = false\nincremental = false\n" % ", ".join('"%s"' % m for m in members)
    write_if_changed(os.path.join(out_dir, "Cargo.toml"), ws)
    write_if_changed(os.path.join(out_dir, ".cargo", "config.toml"), "[net]\noffline = true\n")
    return bins, spans
