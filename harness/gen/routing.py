"""Generator: TLC's elaborated program descriptions -> Rust corpus sources + rendered documents.

The generator makes no semantic choice: which programs exist, what their handlers are called, what
their variants / wire names are, and which documents are delivered all come from the specification
(MC_Routing!EmitCorpus).  It only renders them as text.
"""
import json
import os

# type -> (rust type, [(rust expression, json text), (second value)])
TYPES = {
    "u32": ("u32", [("7u32", "7"), ("4000000000u32", "4000000000")]),
    "String": ("String", [('"alice".to_string()', '"alice"'), ('"q\\"uo te".to_string()', '"q\\"uo te"')]),
    "bool": ("bool", [("true", "true"), ("false", "false")]),
    "OptU32": ("Option<u32>", [("Some(3u32)", "3"), ("None", "null")]),
    "VecString": ("Vec<String>", [('vec!["a".to_string(), "b".to_string()]', '["a","b"]'), ("Vec::<String>::new()", "[]")]),
    "Nested": ("Nested", [('Nested { a: 1, b: "n".to_string() }', '{"a":1,"b":"n"}'), ('Nested { a: 2, b: String::new() }', '{"a":2,"b":""}')]),
    "Uint128": ("Uint128", [("Uint128::new(340282366920938463463374607431768211455u128)", '"340282366920938463463374607431768211455"'),
                            ("Uint128::new(5u128)", '"5"')]),
    "Binary": ("Binary", [('Binary::from(b"hi".to_vec())', '"aGk="'), ("Binary::default()", '""')]),
}
# a JSON value of the wrong type for each argument type
WRONG = {"u32": '"zz"', "String": "5", "bool": '"zz"', "OptU32": '"zz"', "VecString": "5", "Nested": "5", "Uint128": "true", "Binary": "5"}

CTX = {"exec": ("ExecCtx", "ctx_exec"), "query": ("QueryCtx", "ctx_query"), "sudo": ("SudoCtx", "ctx_sudo"),
       "instantiate": ("InstantiateCtx", "ctx_instantiate"), "migrate": ("MigrateCtx", "ctx_migrate")}
EP_FN = {"exec": "execute", "query": "query", "sudo": "sudo", "instantiate": "instantiate", "migrate": "migrate"}
MSG_TY = {"exec": "ExecMsg", "query": "QueryMsg", "sudo": "SudoMsg", "instantiate": "InstantiateMsg", "migrate": "MigrateMsg"}
WRAP_TY = {"exec": "ContractExecMsg", "query": "ContractQueryMsg", "sudo": "ContractSudoMsg"}
ENUM_KINDS = ("exec", "query", "sudo")


def val_ix(val, i):
    return (val + i) % 2


def body_json(m, val, mode="exact"):
    items = []
    for i, a in enumerate(m["args"]):
        j = TYPES[a["t"]][1][val_ix(val, i)][1]
        if mode == "missing" and i == 0:
            continue
        if mode == "wrongtype" and i == 0:
            j = WRONG[a["t"]]
        items.append('"%s":%s' % (a["n"], j))
    if mode == "extra":
        items.append('"zz_extra":1')
    return "{" + ",".join(items) + "}"


def find_method(prog, part_id, name):
    for p in prog["parts"]:
        if p["id"] == part_id:
            for m in p["methods"]:
                if m["name"] == name:
                    return m
    return None


NONOBJ = {"array": "[1,2]", "string": '"exec"', "number": "7", "bool": "true", "null": "null"}


def render_doc(prog, s):
    """Text of the document a stimulus describes (classification by the specification)."""
    m = find_method(prog, s["part"], s["method"]) if s["method"] else None
    sh = s["shape"]
    if sh == "obj1":
        if m is None:
            return '{"%s":{}}' % s["key"]
        if s["body"] == "notobj":
            return '{"%s":7}' % s["key"]
        return '{"%s":%s}' % (s["key"], body_json(m, s["val"], s["body"]))
    if sh == "flat":
        return body_json(m, s["val"])
    if sh == "obj0":
        return "{}"
    if sh == "nonobj":
        return NONOBJ[s["key"]]
    if sh == "obj2":
        return '{"%s":{},"zz_second":{}}' % s["key"]
    if sh == "dup":
        return '{"%s":{},"%s":{}}' % (s["key"], s["key"])
    raise ValueError(sh)


def rust_ident(n):
    return n


def handler_src(prog, part, m, in_trait):
    """Signature (trait) or echo implementation of one handler."""
    ctx_ty, ctx_fn = CTX[m["kind"]]
    params = "".join(", %s: %s" % (a["n"], TYPES[a["t"]][0]) for a in m["args"])
    ret = (m.get("resp") or "QResp") if m["kind"] == "query" else "Response"
    explicit = m["kind"] == "query" and m.get("explicit")
    attr = "#[sv::msg(%s%s)]" % (m["kind"], (", resp=%s" % ret) if explicit else "")
    if in_trait:
        if explicit:        # an aliased result type: the response type can only come from `resp=`
            return "        %s\n        fn %s(&self, ctx: %s%s) -> QResultB<Self::Error>;\n" % (attr, m["name"], ctx_ty, params)
        return "        %s\n        fn %s(&self, ctx: %s%s) -> Result<%s, Self::Error>;\n" % (
            attr, m["name"], ctx_ty, params, ret)
    args = ", ".join('("%s", rec::enc(&%s))' % (a["n"], a["n"]) for a in m["args"])
    ok = "true" if m["outcome"] == "ok" else "false"
    mutc = "" if m["kind"] == "query" else "        rec::touch(ctx.deps.storage, \"%s\");\n" % m["name"]
    fin = (("rec::qresp_b" if ret == "QRespB" else "rec::qresp") if m["kind"] == "query" else "rec::resp") + '("%s", %d, %s)' % (m["name"], m["code"], ok)
    err = "HandlerErr" if part["id"] == "own" else "ContractError"   # interfaces share the contract's error type
    rty = ("QResultB<" + err + ">") if explicit else ("Result<%s, " % ret + err + ">")
    return ("    fn %s(&self, ctx: %s%s) -> " + rty.replace("%", "%%") + " {\n"
            "        rec::handler(\"%s\", \"%s\", \"%s\", \"%s\", vec![%s], rec::%s(&ctx));\n"
            "%s        %s\n    }\n") % (m["name"], ctx_ty, params, prog["id"], part["id"], m["name"], m["kind"], args, ctx_fn, mutc, fin)


def msg_path(part, kind):
    return ("sv::" if part["id"] == "own" else "%s::sv::" % part["id"]) + MSG_TY[kind]


def encode_src(prog):
    out = []
    for part in prog["parts"]:
        for m in part["methods"]:
            for val in (0, 1):
                lets = "".join("let %s: %s = %s; " % (a["n"], TYPES[a["t"]][0], TYPES[a["t"]][1][val_ix(val, i)][0])
                               for i, a in enumerate(m["args"]))
                fields = ", ".join("%s: %s.clone()" % (a["n"], a["n"]) for a in m["args"])
                if m["kind"] in ENUM_KINDS:
                    ctor = "%s::%s { %s }" % (msg_path(part, m["kind"]), m["variant"], fields)
                    doc = '{"%s":%s}' % (m["wire"], body_json(m, val))
                else:
                    ctor = "%s { %s }" % (msg_path(part, m["kind"]), fields)
                    doc = body_json(m, val)
                args = ", ".join('("%s", rec::enc(&%s))' % (a["n"], a["n"]) for a in m["args"])
                out.append("        { %slet msg = %s; rec::encode(\"%s\", \"%s\", \"%s\", \"%s\", %d, vec![%s], &msg, %s); }\n" % (
                    lets, ctor, prog["id"], part["id"], m["kind"], m["name"], val, args, json.dumps(doc)))
    return "".join(out)


def remote_src(prog):
    """Remote helpers of every exec / query method (C10): executor, querier, instantiate builder, admin."""
    pid = prog["id"]
    o = ["    fn remote_events(first_seq: usize) {\n"
         "        use sylvia::types::{BoundQuerier, EmptyExecutorBuilderState, ExecutorBuilder, Remote};\n"
         "        use sylvia::cw_std::{Addr, Empty, QuerierWrapper};\n"
         "        use verif_rrt::remote;\n        let vt = vt();\n        let mut seq = first_seq;\n"]
    n = 0
    for part in prog["parts"]:
        for m in part["methods"]:
            if m["kind"] not in ("exec", "query"):
                continue
            for val, handle in ((0, "contract"), (1, "dyn" if part["id"] != "own" else "contract")):
                n += 1
                lets = "".join("let %s: %s = %s; " % (a["n"], TYPES[a["t"]][0], TYPES[a["t"]][1][val_ix(val, i)][0])
                               for i, a in enumerate(m["args"]))
                call_args = "".join(", %s.clone()" % a["n"] for a in m["args"])
                encs = ", ".join('("%s", rec::enc(&%s))' % (a["n"], a["n"]) for a in m["args"])
                if part["id"] == "own":
                    hty = "Ctr"
                    trait_mod = "sv"
                else:
                    hty = "Ctr" if handle == "contract" else "dyn %s::%s<Error = ContractError>" % (part["id"], part["id"].capitalize())
                    trait_mod = "%s::sv" % part["id"]
                o.append("        { %slet addr = Addr::unchecked(\"target%d\"); let funds = verif_rrt::funds_pool(%d);\n"
                         "          let remote: Remote<%s> = %s;\n" % (
                             lets, n % 3, n, hty, "Remote::new(addr.clone())" if val == 0 else "Remote::borrowed(&addr)"))
                if m["kind"] == "exec":
                    o.append("          let w = <ExecutorBuilder<(EmptyExecutorBuilderState, %s)> as %s::Executor>::%s(remote.executor().with_funds(funds.clone())%s).map(|b| b.build());\n"
                             "          remote::exec(&vt, seq, \"%s\", \"%s\", \"%s\", %d, \"%s\", &addr, &funds, vec![%s], w); seq += 1; }\n" % (
                                 hty, trait_mod, m["near"], call_args, part["id"], m["name"], m["wire"], val, handle, encs))
                else:
                    encs_v = ", ".join('serde_json::json!({"n": "%s", "json": rec::enc(&%s)})' % (a["n"], a["n"]) for a in m["args"])
                    o.append("          let argsj: Vec<serde_json::Value> = vec![%s]; let a2 = addr.to_string(); let sq = seq;\n"
                             "          let mut deps = sylvia::cw_std::testing::mock_dependencies();\n"
                             "          deps.querier.update_wasm(move |wq| remote::query_handler(&self::vt(), sq, \"%s\", \"%s\", \"%s\", %d, \"%s\", &a2, argsj.clone(), wq));\n"
                             "          let wrapper: QuerierWrapper<Empty> = QuerierWrapper::new(&deps.querier);\n"
                             "          let r = <BoundQuerier<Empty, %s> as %s::Querier>::%s(&remote.querier(&wrapper)%s);\n"
                             "          remote::query_result(&vt, \"%s\", \"%s\", %d, r.map(|v| rec::enc(&v)).map_err(|e| e.to_string())); seq += 1; }\n" % (
                                 encs_v, part["id"], m["name"], m["wire"], val, handle, hty, trait_mod, m["near"], call_args,
                                 part["id"], m["name"], val))
    own = [p for p in prog["parts"] if p["id"] == "own"][0]
    inst = [m for m in own["methods"] if m["kind"] == "instantiate"][0]
    for val, variant in ((0, "plain"), (1, "full"), (0, "salted")):
        lets = "".join("let %s: %s = %s; " % (a["n"], TYPES[a["t"]][0], TYPES[a["t"]][1][val_ix(val, i)][0]) for i, a in enumerate(inst["args"]))
        call_args = "".join(", %s.clone()" % a["n"] for a in inst["args"])
        encs = ", ".join('("%s", rec::enc(&%s))' % (a["n"], a["n"]) for a in inst["args"])
        o.append("        { use sv::CtrInstantiateBuilder; use sylvia::builder::instantiate::InstantiateBuilder; %slet funds = verif_rrt::funds_pool(%d);\n"
                 "          let b = InstantiateBuilder::ctr(%d%s);\n" % (lets, val + 1, 40 + val, call_args))
        if variant == "plain":
            o.append("          let w = b.map(|b| b.build());\n"
                     "          remote::instantiate(&vt, seq, %d, \"plain\", %d, \"\", \"\", &[], \"\", vec![%s], w); seq += 1; }\n" % (val, 40 + val, encs))
        elif variant == "full":
            o.append("          let w = b.map(|b| b.with_label(\"lbl\").with_admin(\"adm\".to_string()).with_funds(funds.clone()).build());\n"
                     "          remote::instantiate(&vt, seq, %d, \"full\", %d, \"lbl\", \"adm\", &funds, \"\", vec![%s], w); seq += 1; }\n" % (val, 40 + val, encs))
        else:
            o.append("          let w = b.map(|b| b.with_label(\"l2\").build2(sylvia::cw_std::Binary::from(b\"salt\".to_vec())));\n"
                     "          remote::instantiate(&vt, seq, %d, \"salted\", %d, \"l2\", \"\", &[], \"c2FsdA==\", vec![%s], w); seq += 1; }\n" % (val, 40 + val, encs))
    o.append("        { let addr = Addr::unchecked(\"target9\"); let remote: Remote<Ctr> = Remote::new(addr.clone());\n"
             "          remote::admin(&vt, \"update_admin\", &addr, \"new_adm\", remote.update_admin(\"new_adm\"));\n"
             "          remote::admin(&vt, \"clear_admin\", &addr, \"\", remote.clear_admin()); }\n"
             "        let _ = seq;\n    }\n\n")
    return "".join(o)


def schema_src(prog):
    o = ["    fn schema_events() {\n        use sylvia::cw_schema::QueryResponses;\n"]
    for p in prog["parts"]:
        pre = "sv::" if p["id"] == "own" else "%s::sv::" % p["id"]
        o.append("        rec::schemas(\"%s\", \"%s\", <%sQueryMsg as QueryResponses>::response_schemas().map_err(|e| e.to_string()), -1);\n" % (prog["id"], p["id"], pre))
    o.append("        let root = sylvia::cw_schema::schemars::schema_for!(sv::ContractQueryMsg);\n"
             "        let anyof = root.schema.subschemas.as_ref().and_then(|s| s.any_of.as_ref()).map(|a| a.len() as i64).unwrap_or(-1);\n"
             "        rec::schemas(\"%s\", \"contract\", <sv::ContractQueryMsg as QueryResponses>::response_schemas().map_err(|e| e.to_string()), anyof);\n    }\n\n" % prog["id"])
    return "".join(o)


def variant_of_part(part):
    return "Ctr" if part["id"] == "own" else part["id"].capitalize()


def program_src(prog):
    pid = prog["id"]
    mod = pid.lower()
    ifaces = [p for p in prog["parts"] if p["id"] != "own"]
    own = [p for p in prog["parts"] if p["id"] == "own"][0]
    has = lambda k: any(m["kind"] == k for m in own["methods"])  # noqa: E731
    o = []
    o.append("#[allow(dead_code, unused_variables, unused_imports, clippy::all)]\npub mod %s {\n" % mod)
    o.append("    use sylvia::ctx::{ExecCtx, InstantiateCtx, MigrateCtx, QueryCtx, SudoCtx};\n"
             "    use sylvia::cw_std::{from_json, to_json_vec, Binary, Env, MessageInfo, Response, StdError, Uint128};\n"
             "    use verif_rrt::{rec, CallOut, ContractError, Deps, HandlerErr, Nested, ProgVt, QResp, QRespB, QResultB};\n"
             "    use verif_rrt::{outcome_bin, outcome_resp, proj_anyhow, proj_err, serde_json};\n\n")
    for p in ifaces:
        tr = p["id"].capitalize()
        o.append("    pub mod %s {\n        use super::*;\n        use sylvia::interface;\n\n        #[interface]\n"
                 "        #[sv::custom(msg=sylvia::cw_std::Empty, query=sylvia::cw_std::Empty)]\n"
                 "        pub trait %s {\n            type Error: From<StdError>;\n\n" % (p["id"], tr))
        for m in p["methods"]:
            o.append("    " + handler_src(prog, p, m, True).replace("\n        ", "\n            "))
        o.append("        }\n    }\n\n")
    o.append("    pub struct Ctr;\n\n")
    for p in ifaces:
        tr = p["id"].capitalize()
        o.append("    impl %s::%s for Ctr {\n        type Error = ContractError;\n" % (p["id"], tr))
        for m in p["methods"]:
            o.append("    " + handler_src(prog, p, m, False).replace("\n    ", "\n        ").rstrip(" "))
        o.append("    }\n\n")
    o.append("    #[sylvia::entry_points]\n    #[sylvia::contract]\n    #[sv::error(ContractError)]\n")
    for p in ifaces:
        o.append("    #[sv::messages(%s as %s)]\n" % (p["id"], p["id"].capitalize()))
    o.append("    impl Ctr {\n        pub const fn new() -> Self {\n            Ctr\n        }\n")
    for m in own["methods"]:
        o.append("        #[sv::msg(%s%s)]\n" % (m["kind"], (", resp=%s" % m["resp"]) if (m["kind"] == "query" and m.get("explicit")) else ""))
        o.append("    " + handler_src(prog, own, m, False).replace("\n    ", "\n        ").rstrip(" "))
    o.append("    }\n\n")

    # --- vtable: the generic driver's access to the generated types
    o.append("    fn lists() -> Vec<(&'static str, &'static str, Vec<String>)> {\n        vec![\n")
    for p in prog["parts"]:
        pre = "sv::" if p["id"] == "own" else "%s::sv::" % p["id"]
        for k in ENUM_KINDS:
            o.append("            (\"%s\", \"%s\", %s%s_messages().iter().map(|s| s.to_string()).collect()),\n" % (p["id"], k, pre, EP_FN[k]))
    o.append("        ]\n    }\n\n")
    o.append("    fn decode_wrapper(kind: &str, doc: &[u8]) -> Option<verif_rrt::DecodeRes> {\n        match kind {\n")
    for k in ENUM_KINDS:
        arms = "".join("sv::%s::%s(_) => \"%s\", " % (WRAP_TY[k], variant_of_part(p), p["id"]) for p in prog["parts"])
        o.append("            \"%s\" => Some(from_json::<sv::%s>(doc).map(|m| {{ let p = match &m {{ %s}}; (p, to_json_vec(&m).unwrap()) }}).map_err(|e| e.to_string())),\n"
                 .replace("{{", "{").replace("}}", "}") % (k, WRAP_TY[k], arms))
    o.append("            _ => None,\n        }\n    }\n\n")
    o.append("    fn decode_part(part: &str, kind: &str, doc: &[u8]) -> Option<Result<Vec<u8>, String>> {\n        match (part, kind) {\n")
    for p in prog["parts"]:
        for k in ENUM_KINDS:
            o.append("            (\"%s\", \"%s\") => Some(from_json::<%s>(doc).map(|m| to_json_vec(&m).unwrap()).map_err(|e| e.to_string())),\n" % (p["id"], k, msg_path(p, k)))
    o.append("            _ => None,\n        }\n    }\n\n")
    o.append("    fn decode_struct(kind: &str, doc: &[u8]) -> Option<Result<Vec<u8>, String>> {\n        match kind {\n")
    for k in ("instantiate", "migrate"):
        if has(k):
            o.append("            \"%s\" => Some(from_json::<sv::%s>(doc).map(|m| to_json_vec(&m).unwrap()).map_err(|e| e.to_string())),\n" % (k, MSG_TY[k]))
    o.append("            _ => None,\n        }\n    }\n\n")
    eps = set(prog["entry_points"])
    o.append("    fn call_ep(kind: &str, deps: &mut Deps, env: Env, info: MessageInfo, doc: &[u8]) -> CallOut {\n        match kind {\n")
    for k in ("instantiate", "exec", "query", "sudo", "migrate"):
        if EP_FN[k] not in eps:
            continue
        ty = "sv::" + (WRAP_TY[k] if k in ENUM_KINDS else MSG_TY[k])
        if k == "query":
            call = "outcome_bin(entry_points::query(deps.as_ref(), env, m).map_err(|e| proj_err(&e)))"
        elif k in ("exec", "instantiate"):
            call = "outcome_resp(entry_points::%s(deps.as_mut(), env, info, m).map_err(|e| proj_err(&e)))" % EP_FN[k]
        else:
            call = "outcome_resp(entry_points::%s(deps.as_mut(), env, m).map_err(|e| proj_err(&e)))" % EP_FN[k]
        o.append("            \"%s\" => match from_json::<%s>(doc) {\n                Err(e) => CallOut::DecodeErr(e.to_string()),\n"
                 "                Ok(m) => { let (v, b) = %s; CallOut::Done(v, b) }\n            },\n" % (k, ty, call))
    o.append("            _ => CallOut::Absent,\n        }\n    }\n\n")
    o.append("    fn call_mt(kind: &str, deps: &mut Deps, env: Env, info: MessageInfo, doc: &[u8]) -> CallOut {\n"
             "        type MtC = dyn sylvia::cw_multi_test::Contract<sylvia::cw_std::Empty, sylvia::cw_std::Empty>;\n        let c = Ctr::new();\n        match kind {\n")
    for k in ("instantiate", "exec", "query", "sudo", "migrate"):
        if k == "migrate" and not has("migrate"):
            continue
        if k == "query":
            call = "outcome_bin(MtC::query(&c, deps.as_ref(), env, doc.to_vec()).map_err(|e| proj_anyhow(&e)))"
        elif k in ("exec", "instantiate"):
            call = "outcome_resp(MtC::%s(&c, deps.as_mut(), env, info, doc.to_vec()).map_err(|e| proj_anyhow(&e)))" % EP_FN[k]
        else:
            call = "outcome_resp(MtC::%s(&c, deps.as_mut(), env, doc.to_vec()).map_err(|e| proj_anyhow(&e)))" % EP_FN[k]
        o.append("            \"%s\" => { let (v, b) = %s; CallOut::Done(v, b) }\n" % (k, call))
    o.append("            _ => CallOut::Absent,\n        }\n    }\n\n")
    o.append("    fn encode_events() {\n" + encode_src(prog) + "    }\n\n")
    o.append(remote_src(prog))
    o.append(schema_src(prog))
    parts = ", ".join('"%s"' % p["id"] for p in prog["parts"])
    o.append("    pub fn vt() -> ProgVt {\n        ProgVt { id: \"%s\", lists, decode_wrapper, decode_part, decode_struct, call_ep, call_mt, encode_events, schema_events: Some(schema_events), parts: &[%s], remote_events: Some(remote_events) }\n    }\n" % (pid, parts))
    o.append("}\n")
    return "".join(o)


CARGO_SHARD = """[package]
name = "%s"
version = "0.0.0"
edition = "2021"
publish = false

[dependencies]
verif-rrt = { path = "%s/rrt" }
%s = { package = "sylvia", path = "%s/sylvia", features = ["mt", "stargate", "iterator", "cosmwasm_1_1", "cosmwasm_1_2", "cosmwasm_1_3", "cosmwasm_1_4"] }
"""


def cargo_shard(name, harness_dir, repo, krate="sylvia"):
    return CARGO_SHARD % (name, harness_dir, krate, repo)


def rename_crate(src, krate):
    """The same program text with the framework imported under another name (C19)."""
    return src if krate == "sylvia" else src.replace("sylvia::", krate + "::")


def generate(progs, out_dir, harness_dir, repo, shards, prefix, write_if_changed, krate="sylvia"):
    """Write the workspace; returns (list of (binary name, [program ids]), runtime program rows)."""
    rows = []
    for p in progs:
        q = dict(p)
        q["stim"] = [dict(s, doc=render_doc(p, s)) for s in p["stim"]]
        cands = sorted({m["wire"] for part in p["parts"] for m in part["methods"] if m["kind"] in ENUM_KINDS} | {"zz_unknown"})
        q["candidates"] = cands
        rows.append(q)
    shards = max(1, min(shards, len(progs)))
    groups = [[] for _ in range(shards)]
    for i, p in enumerate(sorted(progs, key=lambda x: -sum(len(pt["methods"]) for pt in x["parts"]))):
        groups[i % shards].append(p)
    bins = []
    members = []
    spans = {}
    generate.spans = spans
    for gi, g in enumerate(groups):
        name = "%s%d" % (prefix, gi)
        members.append(name)
        d = os.path.join(out_dir, name)
        write_if_changed(os.path.join(d, "Cargo.toml"), cargo_shard(name, harness_dir, repo, krate))
        src = ["// generated by harness/gen/routing.py from TLC's corpus -- do not edit\n"]
        for p in g:
            start = sum(x.count("\n") for x in src) + 1
            src.append(rename_crate(program_src(p), krate))
            spans[(name, p["id"])] = (start, sum(x.count("\n") for x in src))
        src.append("\nfn main() {\n    verif_rrt::main_with(&[%s]);\n}\n" % ", ".join("%s::vt()" % p["id"].lower() for p in g))
        write_if_changed(os.path.join(d, "src", "main.rs"), "".join(src))
        bins.append((name, [p["id"] for p in g]))
    ws = "[workspace]\nmembers = [%s]\nresolver = \"2\"\n\n[profile.dev]\ndebug = false\nincremental = false\n" % ", ".join('"%s"' % m for m in members)
    write_if_changed(os.path.join(out_dir, "Cargo.toml"), ws)
    write_if_changed(os.path.join(out_dir, ".cargo", "config.toml"), "[net]\noffline = true\n")
    # stale shard directories from an earlier, larger run would break the workspace globbing: none is globbed, ok
    return bins, rows
