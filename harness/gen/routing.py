"""Generator: TLC's elaborated program descriptions -> Rust corpus sources + rendered documents.

The generator makes no semantic choice: which programs exist, what their handlers are called, what
their variants / wire names are, and which documents are delivered all come from the specification
(MC_Routing!EmitCorpus).  It only renders them as text.
"""
import json
import os

# type -> (rust type, [(rust expression, json text), (second value)])
TYPES = {
    # (value corners: zero and the maximum, the empty string and one with a quote, a blank and a non-ASCII letter)
    "u32": ("u32", [("0u32", "0"), ("4294967295u32", "4294967295")]),
    "String": ("String", [('String::new()', '""'), ('"q\\"uo t\u00e9".to_string()', '"q\\"uo t\u00e9"')]),
    "bool": ("bool", [("true", "true"), ("false", "false")]),
    "OptU32": ("Option<u32>", [("Some(3u32)", "3"), ("None", "null")]),
    "VecString": ("Vec<String>", [('vec!["a".to_string(), "b".to_string()]', '["a","b"]'), ("Vec::<String>::new()", "[]")]),
    "Nested": ("Nested", [('Nested { a: 1, b: "n".to_string() }', '{"a":1,"b":"n"}'), ('Nested { a: 2, b: String::new() }', '{"a":2,"b":""}')]),
    "Uint128": ("Uint128", [("Uint128::new(340282366920938463463374607431768211455u128)", '"340282366920938463463374607431768211455"'),
                            ("Uint128::new(5u128)", '"5"')]),
    "Binary": ("Binary", [('Binary::from(b"hi".to_vec())', '"aGk="'), ("Binary::default()", '""')]),
    "U128": ("u128", [("18446744073709551617u128", '18446744073709551617'), ("5u128", '5')]),
    "CoinQ": ("sylvia::cw_std::Coin", [('sylvia::cw_std::coin(5, "atom")', '{"denom":"atom","amount":"5"}'),
                                       ('sylvia::cw_std::coin(0, "")', '{"denom":"","amount":"0"}')]),
    "Arr4": ("[u8; 4]", [("[1u8, 2, 3, 255]", "[1,2,3,255]"), ("[0u8; 4]", "[0,0,0,0]")]),
    "MapSU": ("std::collections::BTreeMap<String, u32>", [('std::collections::BTreeMap::from([("k".to_string(), 1u32), ("l".to_string(), 2u32)])', '{"k":1,"l":2}'),
                                                         ("std::collections::BTreeMap::<String, u32>::new()", "{}")]),
    "OptVecPair": ("Option<Vec<(u32, String)>>", [('Some(vec![(1u32, "a".to_string()), (2u32, "b".to_string())])', '[[1,"a"],[2,"b"]]'), ("None", "null")]),
    "BoxNested": ("Box<Nested>", [('Box::new(Nested { a: 1, b: "n".to_string() })', '{"a":1,"b":"n"}'), ('Box::new(Nested { a: 2, b: String::new() })', '{"a":2,"b":""}')]),
    "I64": ("i64", [("-9223372036854775807i64", "-9223372036854775807"), ("0i64", "0")]),
    "Unit": ("()", [("()", "null"), ("()", "null")]),
    # a type of the framework's own runtime library as an argument: a handle to another contract (one address with upper-case letters)
    "RemoteH": ("sylvia::types::Remote<'static, sylvia::cw_std::Empty>",
                [('sylvia::types::Remote::new(sylvia::cw_std::Addr::unchecked("Ctr-A1"))', '{"addr":"Ctr-A1"}'),
                 ('sylvia::types::Remote::new(sylvia::cw_std::Addr::unchecked("lower"))', '{"addr":"lower"}')]),
    # u32 arguments carrying a forwarded serde(default): plain, and wrapped in a conditional attribute with a true predicate (C17)
    # (one of the two values is the type's default: an argument holding its default value is still written on the wire)
    "DfltU32": ("u32", [("7u32", "7"), ("0u32", "0")]),
    "DfltU32W": ("u32", [("0u32", "0"), ("4000000000u32", "4000000000")]),
    # the type parameter of a generic program, instantiated with verif_rrt::GenVal
    "GenT": ("GenVal", [("GenVal { g: 7 }", '{"g":7}'), ("GenVal { g: 4000000000 }", '{"g":4000000000}')]),
}
# a JSON value of the wrong type for each argument type
WRONG = {"u32": '"zz"', "String": "5", "bool": '"zz"', "OptU32": '"zz"', "VecString": "5", "Nested": "5", "Uint128": "true", "Binary": "5", "U128": "true", "GenT": "5", "DfltU32": '"zz"', "DfltU32W": '"zz"',
         "CoinQ": "5", "Arr4": '"zz"', "MapSU": "5", "OptVecPair": "5", "BoxNested": "5", "I64": '"zz"', "Unit": "5", "RemoteH": "5"}
# attributes written on handler arguments of these types
PARAM_ATTR = {"DfltU32": "#[serde(default)] ", "DfltU32W": "#[cfg_attr(all(), serde(default))] "}

CTX = {"exec": ("ExecCtx", "ctx_exec"), "query": ("QueryCtx", "ctx_query"), "sudo": ("SudoCtx", "ctx_sudo"),
       "instantiate": ("InstantiateCtx", "ctx_instantiate"), "migrate": ("MigrateCtx", "ctx_migrate")}
EP_FN = {"exec": "execute", "query": "query", "sudo": "sudo", "instantiate": "instantiate", "migrate": "migrate"}
MSG_TY = {"exec": "ExecMsg", "query": "QueryMsg", "sudo": "SudoMsg", "instantiate": "InstantiateMsg", "migrate": "MigrateMsg"}
WRAP_TY = {"exec": "ContractExecMsg", "query": "ContractQueryMsg", "sudo": "ContractSudoMsg"}
ENUM_KINDS = ("exec", "query", "sudo")


# argument names that are Rust keywords are written as raw identifiers; on the wire they are the plain names
KEYWORDS = {"type", "match", "fn", "loop", "move", "ref", "mod"}


def rn(a):
    return ("r#" + a["n"]) if a["n"] in KEYWORDS else a["n"]


def lv(a):
    """The harness's own local variable holding the value of argument `a` (never the argument's name: a handler argument may be
    called like any local of the harness -- `funds`, `app`, `sender`, ..)."""
    return "av_" + a["n"]


def pick(t, val, i):
    """(rust expression, json text) of the value of argument i (of type t) in message value `val`.
    Integers beyond the second position are distinct per position, so that a permutation of same-typed arguments is visible."""
    if t == "u32" and i >= 2:
        n = 1000 + 10 * i + val
        return ("%du32" % n, str(n))
    return TYPES[t][1][(val + i) % 2]


def body_json(m, val, mode="exact"):
    items = []
    for i, a in enumerate(m["args"]):
        j = pick(a["t"], val, i)[1]
        if mode == "missing" and i == 0:
            continue
        if mode == "dropdefault" and a["t"] in PARAM_ATTR:
            continue
        if mode == "wrongtype" and i == 0:
            j = WRONG[a["t"]]
        items.append('"%s":%s' % (a["n"], j))
    if mode == "extra":
        items.append('"zz_extra":1')
    return "{" + ",".join(items) + "}"


def find_method(prog, part_id, name):
    for p in prog["parts"]:
        if p["id"] == part_id:
            for m in p["methods"]:
                if m["name"] == name:
                    return m
    return None


NONOBJ = {"array": "[1,2]", "string": '"exec"', "number": "7", "bool": "true", "null": "null"}


def render_doc(prog, s):
    """Text of the document a stimulus describes (classification by the specification)."""
    m = find_method(prog, s["part"], s["method"]) if s["method"] else None
    sh = s["shape"]
    if sh == "obj1":
        if str(s["body"]).startswith("utf8pad"):      # ~1.2 kB of four-byte characters after 0..3 one-byte characters
            return '{"%s":{"pad":"%s%s"}}' % (s["key"], "a" * int(s["body"][-1]), "\U0001F600" * 300)
        if s["body"] == "null":
            return '{"%s":null}' % s["key"]
        if m is None:
            return '{"%s":{}}' % s["key"]
        if s["body"] == "notobj":
            return '{"%s":7}' % s["key"]
        return '{"%s":%s}' % (s["key"], body_json(m, s["val"], s["body"]))
    if sh == "flat":
        return body_json(m, s["val"], s["body"])
    if sh == "obj0":
        return "{}"
    if sh == "nonobj":
        if str(s["key"]).startswith("name:"):       # a bare JSON string spelling a message name
            return json.dumps(s["key"][5:], ensure_ascii=False)
        return NONOBJ[s["key"]]
    if sh == "obj2":
        return '{"%s":{},"zz_second":{}}' % s["key"]
    if sh == "dup":
        return '{"%s":{},"%s":{}}' % (s["key"], s["key"])
    raise ValueError(sh)


def rust_ident(n):
    return n


# response types of queries: the specification's name -> the Rust type (some are no type paths)
RESP_TY = {"QResp": "QResp", "QRespB": "QRespB", "Tup1": "(QResp,)", "Tup2": "(QResp, u64)", "VecTup1": "Vec<(u64,)>", "ArrB": "[QRespB; 2]",
           "Bin": "Binary", "Str": "String"}


def serde_names(m, indent):
    """`#[sv::attr(serde(..))]` lines for a handler with a forwarded new name / further names (written below its sv::msg)."""
    out = ""
    if m.get("renamed"):
        out += "\n%s#[sv::attr(serde(rename = \"%s\"))]" % (indent, m["wire"])
    if m.get("ser") and m["ser"] != m["wire"]:
        out += "\n%s#[sv::attr(serde(rename(serialize = \"%s\")))]" % (indent, m["ser"])
    for a in m.get("aliases", []):
        out += "\n%s#[sv::attr(serde(alias = \"%s\"))]" % (indent, a)
    if m.get("hattr"):
        out += "\n%s#[sv::attr(%s)]" % (indent, m["hattr"])
    return out


def handler_src(prog, part, m, in_trait):
    """Signature (trait) or echo implementation of one handler."""
    ctx_ty, ctx_fn = CTX[m.get("ctxkind") or m["kind"]]      # (the context type may be written as that of a sibling kind)
    if prog["id"] == "L1":      # (... and with its lifetime spelled out as an anonymous one)
        ctx_ty += "<'_>"
    # the type parameter is spelled `Self::ItemT` in an interface (and its impl) and `T` in the contract
    gen_name = "T" if part["id"] == "own" else "Self::ItemT"
    # argument attributes are written where a sylvia macro sees them: the interface trait and the contract impl
    # (the plain `impl Interface for Contract` block is not a macro input)
    with_attr = in_trait or part["id"] == "own"
    # (an argument may be declared `mut` where the method has a body: the contract's own impl block)
    params = "".join(", %s%s%s: %s" % (PARAM_ATTR.get(a["t"], "") if with_attr else "", "mut " if (a.get("mut") and not in_trait and part["id"] == "own") else "",
                                       rn(a), gen_name if a["t"] == "GenT" else TYPES[a["t"]][0]) for a in m["args"])
    rname = m.get("ret") or m.get("resp") or "QResp"
    ret = (gen_name if rname == "GenT" else RESP_TY[rname]) if m["kind"] == "query" else "Response"       # what the handler returns
    explicit = m["kind"] == "query" and m.get("explicit")
    aliased = explicit and m.get("sig", "alias") == "alias"
    attr = "#[sv::msg(%s%s)]" % (m["kind"], (", resp=%s" % m["resp"]) if explicit else "")
    attr += serde_names(m, "        ")
    if in_trait:
        if aliased:        # an aliased result type: the response type can only come from `resp=`
            return "        %s\n        fn %s(&self, ctx: %s%s) -> QResultB<Self::Error>;\n" % (attr, m["name"], ctx_ty, params)
        return "        %s\n        fn %s(&self, ctx: %s%s) -> Result<%s, Self::Error>;\n" % (
            attr, m["name"], ctx_ty, params, ret)
    args = ", ".join('("%s", rec::enc(&%s))' % (a["n"], rn(a)) for a in m["args"])
    ok = "true" if m["outcome"] == "ok" else "false"
    mutc = "" if m["kind"] == "query" else "        rec::touch(ctx.deps.storage, \"%s\");\n" % m["name"]
    if m["kind"] in ("exec", "instantiate"):
        mutc += "        rec::touch_funds(ctx.deps.storage, &ctx.info.funds);\n"
    fin = ("rec::qresp_t" if m["kind"] == "query" else "rec::resp") + '("%s", %d, %s)' % (m["name"], m["code"], ok)
    if m["kind"] in ("instantiate", "exec"):      # (spawns a child contract when it is handed `zeta` coins: only on the multitest chains)
        fin = 'rec::resp_spawning("%s", %d, %s, &ctx.info.funds)' % (m["name"], m["code"], ok)
    err = "HandlerErr" if part["id"] == "own" else "ContractError"   # interfaces share the contract's error type
    rty = ("QResultB<" + err + ">") if aliased else ("Result<%s, " % ret + err + ">")
    return ("    fn %s(&self, ctx: %s%s) -> " + rty.replace("%", "%%") + " {\n"
            "        rec::handler_on(self.tag, \"%s\", \"%s\", \"%s\", \"%s\", vec![%s], rec::%s(&ctx));\n"
            "%s        %s\n    }\n") % (m["name"], ctx_ty, params, prog["id"], part["id"], m["name"], m["kind"], args, ctx_fn, mutc, fin)


def imod(part):
    """Module path of an interface: `i1`, or `i1::iface` for programs whose interface modules are nested (family "nested":
    the module paths of all interfaces end in the same segment)."""
    return (part["id"] + "::iface") if part.get("_nested") else part["id"]


def msg_path(part, kind):
    if part.get("_generic"):      # generic programs reach their message types through the Api traits (aliases, see generic_aliases)
        return "M%s%s" % (part["id"].capitalize(), kind.capitalize())
    return ("sv::" if part["id"] == "own" else "%s::sv::" % imod(part)) + MSG_TY[kind]


def wrap_path(prog, kind):
    """The contract-level message of an enum kind, or the struct message of instantiate / migrate."""
    if prog.get("family") == "generic":
        return ("W%s" % kind.capitalize()) if kind in ENUM_KINDS else ("MOwn%s" % kind.capitalize())
    return "sv::" + (WRAP_TY[kind] if kind in ENUM_KINDS else MSG_TY[kind])


def uses_gen(part):
    return any(a["t"] == "GenT" for m in part["methods"] for a in m["args"]) or any(m.get("resp") == "GenT" for m in part["methods"])


def generic_aliases(prog):
    """Type aliases of a generic program: every message type named through ContractApi / InterfaceApi."""
    o = ["    pub type CtrT = Ctr<GenVal>;\n"]
    api = {"exec": "Exec", "query": "Query", "sudo": "Sudo", "instantiate": "Instantiate", "migrate": "Migrate"}
    for p in prog["parts"]:
        if p["id"] == "own":
            for k, a in api.items():
                o.append("    pub type MOwn%s = <CtrT as sylvia::types::ContractApi>::%s;\n" % (k.capitalize(), a))
            for k in ENUM_KINDS:
                o.append("    pub type W%s = <CtrT as sylvia::types::ContractApi>::Contract%s;\n" % (k.capitalize(), api[k]))
        else:
            tr = p["id"].capitalize()
            for k in ENUM_KINDS:      # the interface's messages as the contract type instantiates them
                o.append("    pub type M%s%s = <CtrT as %s::sv::InterfaceMessagesApi>::%s;\n" % (tr, k.capitalize(), imod(p), api[k]))
    return "".join(o) + "\n"


def encode_src(prog):
    out = []
    for part in prog["parts"]:
        for m in part["methods"]:
            for val in (0, 1):
                lets = "".join("let %s: %s = %s; " % (lv(a), TYPES[a["t"]][0], pick(a["t"], val, i)[0])
                               for i, a in enumerate(m["args"]))
                fields = ", ".join("%s: %s.clone()" % (rn(a), lv(a)) for a in m["args"])
                if m["kind"] in ENUM_KINDS:
                    ctor = "%s::%s { %s }" % (msg_path(part, m["kind"]), m["variant"], fields)
                    doc = '{"%s":%s}' % (m["wire"], body_json(m, val))
                else:
                    ctor = "%s { %s }" % (msg_path(part, m["kind"]), fields)
                    doc = body_json(m, val)
                args = ", ".join('("%s", rec::enc(&%s))' % (a["n"], lv(a)) for a in m["args"])
                out.append("        { %slet msg = %s; rec::encode(\"%s\", \"%s\", \"%s\", \"%s\", %d, vec![%s], &msg, %s); }\n" % (
                    lets, ctor, prog["id"], part["id"], m["kind"], m["name"], val, args, json.dumps(doc, ensure_ascii=False)))
    return "".join(out)


def remote_src(prog):
    """Remote helpers of every exec / query method (C10): executor, querier, instantiate builder, admin."""
    pid = prog["id"]
    o = ["    fn remote_events(first_seq: usize) {\n"
         "        use sylvia::types::{BoundQuerier, EmptyExecutorBuilderState, ExecutorBuilder, Remote};\n"
         "        use sylvia::cw_std::{Addr, Empty, QuerierWrapper};\n"
         "        use verif_rrt::remote;\n        let vt = vt();\n        let mut seq = first_seq;\n"]
    n = 0
    for part in prog["parts"]:
        for m in part["methods"]:
            if m["kind"] not in ("exec", "query"):
                continue
            if m["kind"] == "query" and m.get("ret") != m.get("resp"):
                continue        # the helper decodes the declared type, the handler returns another one
            for val, handle in ((0, "contract"), (1, "dyn" if part["id"] != "own" else "contract")):
                n += 1
                lets = "".join("let %s: %s = %s; " % (lv(a), TYPES[a["t"]][0], pick(a["t"], val, i)[0])
                               for i, a in enumerate(m["args"]))
                call_args = "".join(", %s.clone()" % lv(a) for a in m["args"])
                encs = ", ".join('("%s", rec::enc(&%s))' % (a["n"], lv(a)) for a in m["args"])
                generic = prog.get("family") == "generic"
                ctr = "Ctr<GenVal>" if generic else "Ctr"
                if part["id"] == "own":
                    hty = ctr
                    trait_mod = "sv"
                else:
                    assoc = ", ItemT = GenVal" if (generic and uses_gen(part)) else ""
                    hty = ctr if handle == "contract" else "dyn %s::%s<Error = ContractError%s>" % (imod(part), part["id"].capitalize(), assoc)
                    trait_mod = "%s::sv" % imod(part)
                # (addresses in lower case, all upper case, mixed)
                o.append("        { %slet addr = Addr::unchecked(\"%s\"); let funds = verif_rrt::funds_pool(%d);\n"
                         "          let remote: Remote<%s> = %s;\n" % (
                             lets, ("target0", "TARGET1", "Target2")[n % 3], n, hty, "Remote::new(addr.clone())" if val == 0 else "Remote::borrowed(&addr)"))
                if m["kind"] == "exec" and generic:
                    # (a generic contract's helper traits carry its type parameters: method-call syntax, one trait in scope)
                    o.append("          let w = { use %s::Executor as _; remote.executor().with_funds(funds.clone()).%s(%s).map(|b| b.build()) };\n"
                             "          remote::exec(&vt, seq, \"%s\", \"%s\", \"%s\", %d, \"%s\", &addr, &funds, vec![%s], w); seq += 1; }\n" % (
                                 trait_mod, m["near"], call_args[2:], part["id"], m["name"], m["wire"], val, handle, encs))
                elif m["kind"] == "exec":
                    o.append("          let w = <ExecutorBuilder<(EmptyExecutorBuilderState, %s)> as %s::Executor>::%s(remote.executor().with_funds(funds.clone())%s).map(|b| b.build());\n"
                             "          remote::exec(&vt, seq, \"%s\", \"%s\", \"%s\", %d, \"%s\", &addr, &funds, vec![%s], w); seq += 1; }\n" % (
                                 hty, trait_mod, m["near"], call_args, part["id"], m["name"], m["wire"], val, handle, encs))
                else:
                    encs_v = ", ".join('serde_json::json!({"n": "%s", "json": rec::enc(&%s)})' % (a["n"], lv(a)) for a in m["args"])
                    o.append("          let argsj: Vec<serde_json::Value> = vec![%s]; let a2 = addr.to_string(); let sq = seq;\n"
                             "          let mut deps = sylvia::cw_std::testing::mock_dependencies();\n"
                             "          deps.querier.update_wasm(move |wq| remote::query_handler(&self::vt(), sq, \"%s\", \"%s\", \"%s\", %d, \"%s\", &a2, argsj.clone(), wq));\n"
                             "          let wrapper: QuerierWrapper<Empty> = QuerierWrapper::new(&deps.querier);\n"
                             "          let r = %s;\n"
                             "          remote::query_result(&vt, \"%s\", \"%s\", %d, r.map(|v| rec::enc(&v)).map_err(|e| e.to_string())); seq += 1; }\n" % (
                                 encs_v, part["id"], m["name"], m["wire"], val, handle,
                                 ("{ use %s::Querier as _; remote.querier(&wrapper).%s(%s) }" % (trait_mod, m["near"], call_args[2:])) if generic
                                 else ("<BoundQuerier<Empty, %s> as %s::Querier>::%s(&remote.querier(&wrapper)%s)" % (hty, trait_mod, m["near"], call_args)),
                                 part["id"], m["name"], val))
    own = [p for p in prog["parts"] if p["id"] == "own"][0]
    inst = [m for m in own["methods"] if m["kind"] == "instantiate"][0]
    # (code ids: an ordinary one, the largest there is, and 0 -- no chain hands that one out, the builder keeps what it is given)
    for val, variant, cid in ((0, "plain", "40"), (1, "full", "18446744073709551615"), (0, "salted", "0")):
        lets = "".join("let %s: %s = %s; " % (lv(a), TYPES[a["t"]][0], pick(a["t"], val, i)[0]) for i, a in enumerate(inst["args"]))
        call_args = "".join(", %s.clone()" % lv(a) for a in inst["args"])
        encs = ", ".join('("%s", rec::enc(&%s))' % (a["n"], lv(a)) for a in inst["args"])
        o.append("        { use sv::CtrInstantiateBuilder; use sylvia::builder::instantiate::InstantiateBuilder; %slet funds = verif_rrt::funds_pool(%d);\n"
                 "          let b = InstantiateBuilder::ctr(%s%s);\n" % (lets, val + 1, cid, call_args))
        if variant == "plain":
            o.append("          let w = b.map(|b| b.build());\n"
                     "          remote::instantiate(&vt, seq, %d, \"plain\", %s, \"\", \"\", &[], \"\", vec![%s], w); seq += 1; }\n" % (val, cid, encs))
        elif variant == "full":
            o.append("          let w = b.map(|b| b.with_label(\"lbl\").with_admin(\"adm\".to_string()).with_funds(funds.clone()).build());\n"
                     "          remote::instantiate(&vt, seq, %d, \"full\", %s, \"lbl\", \"adm\", &funds, \"\", vec![%s], w); seq += 1; }\n" % (val, cid, encs))
        else:
            o.append("          let w = b.map(|b| b.with_label(\"l2\").build2(sylvia::cw_std::Binary::from(b\"salt\".to_vec())));\n"
                     "          remote::instantiate(&vt, seq, %d, \"salted\", %s, \"l2\", \"\", &[], \"c2FsdA==\", vec![%s], w); seq += 1; }\n" % (val, cid, encs))
    o.append("        { let addr = Addr::unchecked(\"TARGET9\"); let remote: Remote<%s> = Remote::new(addr.clone());\n" % ("Ctr<GenVal>" if prog.get("family") == "generic" else "Ctr") +
             "          remote::admin(&vt, \"update_admin\", &addr, \"new_adm\", remote.update_admin(\"new_adm\"));\n"
             "          remote::admin(&vt, \"clear_admin\", &addr, \"\", remote.clear_admin()); }\n"
             "        let _ = seq;\n    }\n\n")
    return "".join(o)


def builder_src(prog):
    """The builders behind the remote helpers (C10): an interpreter of the runs the specification asks for."""
    own = [p for p in prog["parts"] if p["id"] == "own"][0]
    inst = [m for m in own["methods"] if m["kind"] == "instantiate"][0]
    execs = [m for m in own["methods"] if m["kind"] == "exec"]

    def lets(m):
        return "".join("let %s: %s = %s; " % (lv(a), TYPES[a["t"]][0], pick(a["t"], 0, i)[0]) for i, a in enumerate(m["args"]))

    def call_args(m):
        return "".join(", %s.clone()" % lv(a) for a in m["args"])
    o = ["    fn builder_events(runs: &serde_json::Value) {\n"
         "        use sylvia::types::{EmptyExecutorBuilderState, ExecutorBuilder, Remote};\n"
         "        use sylvia::cw_std::{Addr, Binary};\n"
         "        use sv::CtrInstantiateBuilder; use sylvia::builder::instantiate::InstantiateBuilder;\n"
         "        use verif_rrt::remote;\n        let vt = vt();\n"
         "        for (target, sets, fin) in remote::builder_runs(runs) {\n"
         "            if target == \"exec\" {\n"]
    if execs:
        m = execs[0]
        o.append("                %slet addr = Addr::unchecked(\"target7\"); let remote: Remote<Ctr> = Remote::new(addr.clone());\n"
                 "                let mut b = remote.executor(); remote::builder_new(&vt, \"exec\");\n"
                 "                for (f, v) in &sets { if f == \"funds\" { b = b.with_funds(remote::builder_funds(v)); remote::builder_set(&vt, f, v); } }\n"
                 "                let w = <ExecutorBuilder<(EmptyExecutorBuilderState, Ctr)> as sv::Executor>::%s(b%s).map(|b| b.build());\n"
                 "                remote::builder_build(&vt, &fin, addr.as_str(), 0, \"\", w);\n" % (lets(m), m["near"], call_args(m)))
    o.append("            } else {\n"
             "                %slet b = InstantiateBuilder::ctr(77%s); remote::builder_new(&vt, \"inst\");\n"
             "                let w = b.map(|mut b| {\n"
             "                    for (f, v) in &sets {\n"
             "                        b = match f.as_str() { \"funds\" => b.with_funds(remote::builder_funds(v)), \"label\" => b.with_label(v.as_str()), _ => b.with_admin(v.to_string()) };\n"
             "                        remote::builder_set(&vt, f, v);\n"
             "                    }\n"
             "                    if fin == \"build2\" { b.build2(Binary::from(b\"salt\".to_vec())) } else { b.build() }\n"
             "                });\n"
             "                remote::builder_build(&vt, &fin, \"\", 77, if fin == \"build2\" { \"c2FsdA==\" } else { \"\" }, w);\n"
             "            }\n        }\n    }\n\n" % (lets(inst), call_args(inst)))
    return "".join(o)


def schema_src(prog):
    o = ["    fn schema_events() {\n        use sylvia::cw_schema::QueryResponses;\n"
         "        let mut gen = sylvia::cw_schema::schemars::gen::SchemaGenerator::default();\n"]
    for p in prog["parts"]:
        o.append("        rec::schemas(\"%s\", \"%s\", <%s as QueryResponses>::response_schemas().map_err(|e| e.to_string()), -1);\n" % (prog["id"], p["id"], msg_path(p, "query")))
    w = wrap_path(prog, "query")
    # the contract-level schema, by one generator for everything this program asks: the any-of of the schemas of its parts' messages
    o.append("        { let parts = vec![%s]; rec::anyof_in::<%s>(&mut gen, parts); }\n" % (
        ", ".join("gen.subschema_for::<%s>()" % msg_path(p, "query") for p in prog["parts"]), w))
    o.append("        let root = sylvia::cw_schema::schemars::schema_for!(%s);\n"
             "        let anyof = root.schema.subschemas.as_ref().and_then(|s| s.any_of.as_ref()).map(|a| a.len() as i64).unwrap_or(-1);\n"
             "        rec::schemas(\"%s\", \"contract\", <%s as QueryResponses>::response_schemas().map_err(|e| e.to_string()), anyof);\n    }\n\n" % (w, prog["id"], w))
    if prog.get("family") == "generic":
        # the same tables of the same generic contract used with another type, asked in the same process
        o[-1] = o[-1][:-len("    }\n\n")]
        c2 = "Ctr<verif_rrt::GenVal2>"
        for p in prog["parts"]:
            ty = ("<%s as sylvia::types::ContractApi>::Query" % c2) if p["id"] == "own" else ("<%s as %s::sv::InterfaceMessagesApi>::Query" % (c2, imod(p)))
            o.append("        rec::schemas_at(\"%s\", \"%s\", \"GenVal2\", <%s as QueryResponses>::response_schemas().map_err(|e| e.to_string()), -1);\n" % (prog["id"], p["id"], ty))
        w2 = "<%s as sylvia::types::ContractApi>::ContractQuery" % c2
        tys2 = [("<%s as sylvia::types::ContractApi>::Query" % c2) if p["id"] == "own" else ("<%s as %s::sv::InterfaceMessagesApi>::Query" % (c2, imod(p))) for p in prog["parts"]]
        o.append("        { let parts = vec![%s]; rec::anyof_in::<%s>(&mut gen, parts); }\n" % (", ".join("gen.subschema_for::<%s>()" % t for t in tys2), w2))
        o.append("        let root = sylvia::cw_schema::schemars::schema_for!(%s);\n"
                 "        let anyof = root.schema.subschemas.as_ref().and_then(|s| s.any_of.as_ref()).map(|a| a.len() as i64).unwrap_or(-1);\n"
                 "        rec::schemas_at(\"%s\", \"contract\", \"GenVal2\", <%s as QueryResponses>::response_schemas().map_err(|e| e.to_string()), anyof);\n" % (w2, prog["id"], w2))
        # ... and once more with the first type (a table must not depend on what was asked before)
        w = wrap_path(prog, "query")
        o.append("        { let parts = vec![%s]; rec::anyof_in::<%s>(&mut gen, parts); }\n" % (
            ", ".join("gen.subschema_for::<%s>()" % msg_path(p, "query") for p in prog["parts"]), w))
        o.append("        rec::schemas(\"%s\", \"contract\", <%s as QueryResponses>::response_schemas().map_err(|e| e.to_string()), anyof);\n    }\n\n" % (prog["id"], w))
    return "".join(o)


def mt_src(prog):
    """Multitest twin chains (C12): every operation through the generated proxies and as raw JSON."""
    pid = prog["id"]
    ifaces = [p for p in prog["parts"] if p["id"] != "own"]
    own = [p for p in prog["parts"] if p["id"] == "own"][0]
    inst = [m for m in own["methods"] if m["kind"] == "instantiate"][0]
    mig = [m for m in own["methods"] if m["kind"] == "migrate"]

    def lets(m, val):
        return "".join("let %s: %s = %s; " % (lv(a), TYPES[a["t"]][0], pick(a["t"], val, i)[0]) for i, a in enumerate(m["args"]))

    def args(m):
        return ", ".join("%s.clone()" % lv(a) for a in m["args"])

    def call(p, m):      # fully qualified: handlers of different parts / kinds may share names
        tr = "sv::mt::CtrProxy" if p["id"] == "own" else "%s::sv::mt::%sProxy" % (imod(p), p["id"].capitalize())
        a = args(m)
        return "%s::%s(c%s)" % (tr, m["near"], (", " + a) if a else "")

    def doc(m, val):
        return json.dumps(('{"%s":%s}' % (m["wire"], body_json(m, val))) if m["kind"] in ENUM_KINDS else body_json(m, val), ensure_ascii=False)

    o = ["    fn mt_histories(hists: &serde_json::Value) {\n"
         "        use sylvia::cw_multi_test::Executor;\n        use sylvia::cw_std::{Addr, Binary, WasmMsg};\n"
         "        use sv::mt::{CodeId, CtrProxy};\n        use verif_rrt::mt;\n"]
    for p in ifaces:
        o.append("        use %s::sv::mt::%sProxy;\n" % (imod(p), p["id"].capitalize()))
    o.append("        for (hi, h) in hists.as_array().cloned().unwrap_or_default().iter().enumerate() {\n"
             "          // a panic ends this history only, and is recorded as an observation of the operation it happened in\n"
             "          let cur = std::cell::Cell::new((0usize, serde_json::Value::Null));\n"
             "          let res = verif_rrt::rt::catch(std::panic::AssertUnwindSafe(|| {\n"
             "            let app = sylvia::multitest::App::new(mt::seeded_app());\n            let mut raw = mt::seeded_app();\n"
             "            let mut codes = vec![];\n            let mut raw_codes: Vec<u64> = vec![];\n"
             "            let mut ctr_p = None;\n            let mut ctr_r: Option<Addr> = None;\n"
             "            for (si, op) in h.as_array().cloned().unwrap_or_default().iter().enumerate() {\n"
             "                cur.set((si, op.clone())); mt::mark_runs(0);\n"
             "                let s = |k: &str| op[k].as_str().unwrap_or(\"\").to_string();\n"
             "                let val = op[\"val\"].as_u64().unwrap_or(0);\n"
             "                let f = mt::funds(op[\"funds\"].as_u64().unwrap_or(0));\n"
             "                let (name, part, method) = (s(\"op\"), s(\"part\"), s(\"method\"));\n"
             "                let sender = if s(\"sender\").is_empty() { mt::sender(\"alice\") } else { mt::sender(&s(\"sender\")) };\n"
             "                let (pres, rres): (serde_json::Value, serde_json::Value) = match name.as_str() {\n"
             "                    \"store\" => {\n                        codes.push(CodeId::store_code(&app));\n"
             "                        raw_codes.push(raw.store_code(Box::new(Ctr::new())));\n"
             "                        (serde_json::json!({\"ok\":true,\"kind\":\"none\"}), serde_json::json!({\"ok\":true,\"kind\":\"none\"}))\n                    }\n")
    # the harness's helpers that do not talk to a contract: block information, code information
    o.append("                    \"update_block\" => {\n"
             "                        app.update_block(|b| { b.height += val; b.time = b.time.plus_seconds(5 * val); });\n"
             "                        raw.update_block(|b| { b.height += val; b.time = b.time.plus_seconds(5 * val); });\n"
             "                        (serde_json::json!({\"ok\":true,\"kind\":\"none\"}), serde_json::json!({\"ok\":true,\"kind\":\"none\"}))\n                    }\n"
             "                    \"set_block\" => {\n"
             "                        let mut b = app.block_info(); b.height += val; b.time = b.time.plus_seconds(5 * val); app.set_block(b);\n"
             "                        let mut b = raw.block_info(); b.height += val; b.time = b.time.plus_seconds(5 * val); raw.set_block(b);\n"
             "                        (serde_json::json!({\"ok\":true,\"kind\":\"none\"}), serde_json::json!({\"ok\":true,\"kind\":\"none\"}))\n                    }\n"
             "                    \"code_info\" => {\n"
             "                        let i = (val as usize).saturating_sub(1);\n"
             "                        let pr = app.code_info(codes[i].code_id()).map(|c| mt::code_info_json(&c, 1)).map_err(|e| e.to_string());\n"
             "                        let rr = raw.wrap().query_wasm_code_info(raw_codes[i]).map(|c| mt::code_info_json(&c, 1)).map_err(|e| e.to_string());\n"
             "                        (mt::res_value(pr, 0), mt::res_value(rr, 0))\n                    }\n")
    # instantiate
    o.append("                    \"instantiate\" => {\n                        let code = codes.last().unwrap();\n"
             "                        let (label, admin, salt) = (s(\"label\"), s(\"admin\"), s(\"salt\"));\n"
             "                        let admin_addr = if admin.is_empty() { None } else if admin == \"<empty>\" { Some(String::new()) } else { Some(mt::sender(&admin).to_string()) };\n"
             "                        let (pr, docj) = match val {\n")
    for val in (0, 1):
        # (an option set several times has the value set last, Multitest.tla: for val = 1 every option is first set to a decoy value)
        decoy = ("                                let decoy_f = mt::funds(3); b = b.with_label(\"decoy\").with_admin(Some(\"decoy\")).with_funds(&decoy_f);\n"
                 "                                if label.is_empty() { b = b.with_label(\"Contract\"); }\n"
                 "                                if admin_addr.is_none() { b = b.with_admin(None::<&str>); }\n"
                 "                                if !salt.is_empty() { b = b.with_salt(&b\"decoy\"[..]); }\n") if val == 1 else ""
        o.append("                            %d => { %slet mut b = code.instantiate(%s);\n%s"
                 "                                if !label.is_empty() { b = b.with_label(&label); }\n"
                 "                                if let Some(a) = &admin_addr { b = b.with_admin(Some(a.as_str())); }\n"
                 "                                b = b.with_funds(&f);\n"
                 "                                if !salt.is_empty() { b = b.with_salt(salt.as_bytes()); }\n"
                 "                                (b.call(&sender), %s) }\n" % (val, lets(inst, val), args(inst), decoy, doc(inst, val)))
    o.append("                            _ => unreachable!(),\n                        };\n"
             "                        let rr: Result<sylvia::cw_multi_test::AppResponse, sylvia::anyhow::Error> = if salt.is_empty() {\n"
             "                            raw.instantiate_contract(*raw_codes.last().unwrap(), sender.clone(), &mt::json_value(docj), &f, s(\"rawlabel\"), admin_addr.clone())\n"
             "                                .map(|a| { ctr_r = Some(a); sylvia::cw_multi_test::AppResponse::default() })\n"
             "                        } else {\n"
             "                            let wm = WasmMsg::Instantiate2 { admin: admin_addr.clone(), code_id: *raw_codes.last().unwrap(), msg: Binary::from(docj.as_bytes().to_vec()), funds: f.clone(), label: s(\"rawlabel\"), salt: Binary::from(salt.as_bytes().to_vec()) };\n"
             "                            let r = raw.execute(sender.clone(), wm.into());\n"
             "                            if let Ok(a) = &r {\n"
             "                                if let Some(d) = &a.data { if let Ok(i) = sylvia::cw_utils::parse_instantiate_response_data(d.as_slice()) { ctr_r = Some(Addr::unchecked(i.contract_address)); } }\n"
             "                            }\n                            r\n                        };\n"
             "                        let pres = match pr {\n"
             "                            Ok(p) => { ctr_p = Some(p); serde_json::json!({\"ok\":true,\"kind\":\"resp\",\"resp\":{\"attrs\":[],\"event_types\":[],\"data\":\"\"},\"value\":{\"t\":\"-\"},\"err\":{\"class\":\"\",\"code\":0,\"text\":\"\"}}) }\n"
             "                            Err(e) => mt::res_proxy(Err(e)),\n                        };\n"
             "                        let mut rres = mt::res_raw(rr);\n"
             "                        if rres[\"ok\"] == true { rres[\"resp\"] = serde_json::json!({\"attrs\":[],\"event_types\":[],\"data\":\"\"}); }\n"
             "                        (pres, rres)\n                    }\n")
    # exec / sudo / query
    for kind in ("exec", "sudo", "query"):
        o.append("                    \"%s\" => {\n                        let c = ctr_p.as_ref().unwrap();\n                        let ra = ctr_r.clone().unwrap();\n"
                 "                        match (part.as_str(), method.as_str(), val) {\n" % kind)
        for p in prog["parts"]:
            for m in p["methods"]:
                if m["kind"] != kind:
                    continue
                for val in (0, 1):
                    if kind == "exec":
                        o.append("                            (\"%s\", \"%s\", %d) => { %slet pr = %s.with_funds(&f).call(&sender);\n"
                                 "                                let rr = raw.execute_contract(sender.clone(), ra.clone(), &mt::json_value(%s), &f);\n"
                                 "                                (mt::res_proxy(pr), mt::res_raw(rr)) }\n" % (p["id"], m["name"], val, lets(m, val), call(p, m), doc(m, val)))
                    elif kind == "sudo":
                        o.append("                            (\"%s\", \"%s\", %d) => { %slet pr = %s;\n"
                                 "                                let rr = raw.wasm_sudo(ra.clone(), &mt::json_value(%s));\n"
                                 "                                (mt::res_proxy(pr), mt::res_raw(rr)) }\n" % (p["id"], m["name"], val, lets(m, val), call(p, m), doc(m, val)))
                    else:
                        o.append("                            (\"%s\", \"%s\", %d) => { %slet pr = %s;\n"
                                 "                                let rr = mt::raw_query(&raw, &ra, %s);\n"
                                 "                                (mt::res_value(pr.map(|v| rec::enc(&v)).map_err(|e| e.to_string()), %d), mt::res_value(rr, %d)) }\n" % (
                                     p["id"], m["name"], val, lets(m, val), call(p, m), doc(m, val), m["code"], m["code"]))
        o.append("                            _ => (serde_json::json!({\"ok\":false,\"kind\":\"absent\"}), serde_json::json!({\"ok\":false,\"kind\":\"absent\"})),\n                        }\n                    }\n")
    if mig:
        m = mig[0]
        o.append("                    \"migrate\" => {\n                        let c = ctr_p.as_ref().unwrap();\n                        let ra = ctr_r.clone().unwrap();\n"
                 "                        let new_p = codes.last().unwrap().code_id();\n                        let new_r = *raw_codes.last().unwrap();\n"
                 "                        match val {\n")
        for val in (0, 1):
            o.append("                            %d => { %slet pr = %s.call(&sender, new_p);\n"
                     "                                let rr = raw.migrate_contract(sender.clone(), ra.clone(), &mt::json_value(%s), new_r);\n"
                     "                                (mt::res_proxy(pr), mt::res_raw(rr)) }\n" % (val, lets(m, val), call(own, m), doc(m, val)))
        o.append("                            _ => unreachable!(),\n                        }\n                    }\n")
    o.append("                    _ => (serde_json::json!({\"ok\":false,\"kind\":\"absent\"}), serde_json::json!({\"ok\":false,\"kind\":\"absent\"})),\n"
             "                };\n"
             "                let pa = ctr_p.as_ref().map(|p| p.contract_addr.clone());\n"
             "                let mut pview = mt::view(&app.app(), pa.as_ref());\n                let mut rview = mt::view(&raw, ctr_r.as_ref());\n"
             "                pview[\"height\"] = serde_json::json!(app.block_info().height.to_string());\n"
             "                rview[\"height\"] = serde_json::json!(raw.block_info().height.to_string());\n"
             "                pview[\"time\"] = serde_json::json!(app.block_info().time.nanos().to_string());\n"
             "                rview[\"time\"] = serde_json::json!(raw.block_info().time.nanos().to_string());\n"
             "                mt::emit_op(\"%s\", hi, si, op, pres, rres, pview, rview, pa == ctr_r);\n"
             "            }\n          }));\n"
             "          if let Err(m) = res { let (si, op) = cur.take(); mt::emit_panic(\"%s\", hi, si, &op, &m); }\n"
             "        }\n    }\n\n" % (pid, pid))
    # handler invocations are counted per side: a mark before the proxy call, one between it and the raw submission
    src = "".join(o)
    src = src.replace("let pr = ", "mt::mark_runs(0); let pr = ").replace("let (pr, docj) = match val {", "mt::mark_runs(0); let (pr, docj) = match val {")
    src = src.replace("let rr = ", "mt::mark_runs(1); let rr = ").replace("let rr: ", "mt::mark_runs(1); let rr: ")
    return src


def override_src(prog):
    """User-supplied entry point functions for the overridden kinds (they record their own invocation)."""
    if not prog.get("overrides"):
        return ""
    o = ["    pub mod ov {\n        use super::*;\n        use sylvia::cw_std::{Deps as StdDeps, DepsMut};\n        use verif_rrt::OvMsg;\n"]
    for k in prog["overrides"]:
        name = "ov_" + k
        if k == "query":
            o.append("        pub fn query(deps: StdDeps, env: Env, _msg: OvMsg) -> Result<Binary, ContractError> {\n"
                     "            rec::handler(\"%s\", \"override\", \"%s\", \"query\", vec![], rec::ctx_raw(&env, deps.storage, &deps.querier, None));\n"
                     "            Ok(sylvia::cw_std::to_json_binary(&QResp { h: \"%s\".to_string(), code: 0 })?)\n        }\n" % (prog["id"], name, name))
        elif k == "reply":
            o.append("        pub fn reply(deps: DepsMut, env: Env, _msg: sylvia::cw_std::Reply) -> Result<Response, ContractError> {\n"
                     "            rec::handler(\"%s\", \"override\", \"%s\", \"reply\", vec![], rec::ctx_raw(&env, deps.storage, &deps.querier, None));\n"
                     "            rec::touch(deps.storage, \"%s\");\n"
                     "            Ok(Response::new().add_attribute(\"h\", \"%s\").add_attribute(\"code\", \"0\").set_data(b\"%s\"))\n        }\n" % (
                         prog["id"], name, name, name, name))
        elif k in ("exec", "instantiate"):
            o.append("        pub fn %s(deps: DepsMut, env: Env, info: MessageInfo, _msg: OvMsg) -> Result<Response, ContractError> {\n"
                     "            rec::handler(\"%s\", \"override\", \"%s\", \"%s\", vec![], rec::ctx_raw(&env, deps.storage, &deps.querier, Some(&info)));\n"
                     "            rec::touch(deps.storage, \"%s\");\n"
                     "            Ok(Response::new().add_attribute(\"h\", \"%s\").add_attribute(\"code\", \"0\").set_data(b\"%s\"))\n        }\n" % (
                         k, prog["id"], name, k, name, name, name))
        else:
            o.append("        pub fn %s(deps: DepsMut, env: Env, _msg: OvMsg) -> Result<Response, ContractError> {\n"
                     "            rec::handler(\"%s\", \"override\", \"%s\", \"%s\", vec![], rec::ctx_raw(&env, deps.storage, &deps.querier, None));\n"
                     "            rec::touch(deps.storage, \"%s\");\n"
                     "            Ok(Response::new().add_attribute(\"h\", \"%s\").add_attribute(\"code\", \"0\").set_data(b\"%s\"))\n        }\n" % (
                         k, prog["id"], name, k, name, name, name))
    o.append("    }\n\n")
    return "".join(o)


def variant_of_part(part):
    return "Ctr" if part["id"] == "own" else part["id"].capitalize()


def program_src(prog):
    pid = prog["id"]
    mod = pid.lower()
    ifaces = [p for p in prog["parts"] if p["id"] != "own"]
    own = [p for p in prog["parts"] if p["id"] == "own"][0]
    has = lambda k: any(m["kind"] == k for m in own["methods"])  # noqa: E731
    generic = prog.get("family") == "generic" or bool(prog.get("generic"))
    define_only = bool(prog.get("define_only"))      # the contract is only *defined*: no entry points, nothing instantiates its messages
    if generic:
        for p in prog["parts"]:
            p["_generic"] = True
    if prog.get("family") == "nested":
        for p in prog["parts"]:
            p["_nested"] = True
    ctr_ty = "Ctr::<GenVal>" if generic else "Ctr"
    o = []
    o.append("#[allow(dead_code, unused_variables, unused_imports, clippy::all)]\npub mod %s {\n" % mod)
    o.append("    use sylvia::ctx::{ExecCtx, InstantiateCtx, MigrateCtx, QueryCtx, SudoCtx};\n"
             "    use sylvia::cw_std::{from_json, to_json_vec, Binary, Env, MessageInfo, Response, StdError, Uint128};\n"
             "    use verif_rrt::{rec, CallOut, ContractError, Deps, HandlerErr, Nested, ProgVt, QResp, QRespB, QResultB};\n"
             "    use verif_rrt::{outcome_bin, outcome_resp, proj_anyhow, proj_err, serde_json};\n"
             "    use verif_rrt::GenVal;\n\n")
    for p in ifaces:
        tr = p["id"].capitalize()
        nested = bool(p.get("_nested"))
        o.append("    pub mod %s {%s\n        use %ssuper::*;\n        use sylvia::interface;\n\n        #[interface]\n"
                 "        #[sv::custom(msg=sylvia::cw_std::Empty, query=sylvia::cw_std::Empty)]\n%s"
                 "        pub trait %s {\n            type Error: From<StdError>;\n%s\n" % (
                     p["id"], " pub mod iface {" if nested else "", "super::" if nested else "",
                     "".join("        #[sv::msg_attr(%s, %s)]\n" % (a["kind"], a["text"]) for a in p.get("mattrs", [])),
                     tr, "            type ItemT: sylvia::types::CustomMsg;\n" if generic and uses_gen(p) else ""))
        for m in p["methods"]:
            o.append("    " + handler_src(prog, p, m, True).replace("\n        ", "\n            "))
        o.append("        }\n    }%s\n\n" % (" }" if nested else ""))
    o.append(override_src(prog))
    gen_hdr = "<T>" if generic else ""
    gen_where = " where T: sylvia::types::CustomMsg + rec::QShape + 'static" if generic else ""
    # the contract is a value: `new()` makes the one the entry points use (tag 0); the harness calls the multitest impl on another
    o.append("    pub struct Ctr<T> { pub tag: u32, _p: std::marker::PhantomData<T> }\n\n" if generic else "    pub struct Ctr { pub tag: u32 }\n\n")
    for p in ifaces:
        tr = p["id"].capitalize()
        o.append("    impl%s %s::%s for Ctr%s%s {\n        type Error = ContractError;\n%s" % (
            gen_hdr, imod(p), tr, gen_hdr, gen_where, "        type ItemT = T;\n" if generic and uses_gen(p) else ""))
        for m in p["methods"]:
            o.append("    " + handler_src(prog, p, m, False).replace("\n    ", "\n        ").rstrip(" "))
        o.append("    }\n\n")
    if define_only:
        o.append("    #[sylvia::contract]\n")
    else:
        o.append("    #[sylvia::entry_points%s]\n    #[sylvia::contract]\n" % ("(generics<GenVal>)" if generic else ""))
    a_err = ["    #[sv::error(ContractError)]\n"]
    a_msgs = ["    #[sv::messages(%s as %s)]\n" % (imod(p), p["id"].capitalize()) for p in ifaces]
    a_mat = ["    #[sv::msg_attr(%s, %s)]\n" % (a["kind"], a["text"]) for a in own.get("mattrs", [])]        # forwarded to the message type of a kind
    a_ovs = ["    #[sv::override_entry_point(%s=ov::%s(%s))]\n" % (k, k, "sylvia::cw_std::Reply" if k == "reply" else "verif_rrt::OvMsg")
             for k in prog.get("overrides", [])]
    if prog.get("family") == "spread":
        # the same declarations, not grouped by kind: the interfaces are declared with other attributes between them
        o.extend(a_msgs[:1] + ["    #[allow(dead_code)]\n"] + a_err + a_ovs + a_msgs[1:] + a_mat)
    else:
        o.extend(a_err + a_msgs + a_mat + a_ovs)
    o.append("    impl%s Ctr%s%s {\n        pub fn new() -> Self {\n            %s\n        }\n" % (
        gen_hdr, gen_hdr, gen_where, "Ctr { tag: verif_rrt::next_birth(), _p: std::marker::PhantomData }" if generic else "Ctr { tag: verif_rrt::next_birth() }"))
    for m in own["methods"]:
        o.append("        #[sv::msg(%s%s)]%s\n" % (m["kind"], (", resp=%s" % m["resp"]) if (m["kind"] == "query" and m.get("explicit")) else "",
                                                     serde_names(m, "        ")))
        o.append("    " + handler_src(prog, own, m, False).replace("\n    ", "\n        ").rstrip(" "))
    o.append("    }\n\n")
    if define_only:
        o.append("}\n")
        return "".join(o)

    if generic:
        o.append(generic_aliases(prog))
    # --- vtable: the generic driver's access to the generated types
    o.append("    fn lists() -> Vec<(&'static str, &'static str, Vec<String>)> {\n        vec![\n")
    for p in prog["parts"]:
        pre = "sv::" if p["id"] == "own" else "%s::sv::" % imod(p)
        for k in ENUM_KINDS:
            o.append("            (\"%s\", \"%s\", %s%s_messages().iter().map(|s| s.to_string()).collect()),\n" % (p["id"], k, pre, EP_FN[k]))
    o.append("        ]\n    }\n\n")
    o.append("    fn decode_wrapper(kind: &str, doc: &[u8]) -> Option<verif_rrt::DecodeRes> {\n        match kind {\n")
    for k in ENUM_KINDS:
        arms = "".join("%s::%s(_) => \"%s\", " % (wrap_path(prog, k), variant_of_part(p), p["id"]) for p in prog["parts"])
        o.append("            \"%s\" => Some(from_json::<%s>(doc).map(|m| {{ let p = match &m {{ %s}}; (p, verif_rrt::reencode(&m)) }}).map_err(|e| e.to_string())),\n"
                 .replace("{{", "{").replace("}}", "}") % (k, wrap_path(prog, k), arms))
    o.append("            _ => None,\n        }\n    }\n\n")
    o.append("    fn decode_part(part: &str, kind: &str, doc: &[u8]) -> Option<Result<Vec<u8>, String>> {\n        match (part, kind) {\n")
    for p in prog["parts"]:
        for k in ENUM_KINDS:
            o.append("            (\"%s\", \"%s\") => Some(from_json::<%s>(doc).map(|m| verif_rrt::reencode(&m)).map_err(|e| e.to_string())),\n" % (p["id"], k, msg_path(p, k)))
    o.append("            _ => None,\n        }\n    }\n\n")
    o.append("    fn decode_struct(kind: &str, doc: &[u8]) -> Option<Result<Vec<u8>, String>> {\n        match kind {\n")
    for k in ("instantiate", "migrate"):
        if has(k):
            o.append("            \"%s\" => Some(from_json::<%s>(doc).map(|m| verif_rrt::reencode(&m)).map_err(|e| e.to_string())),\n" % (k, wrap_path(prog, k)))
    o.append("            _ => None,\n        }\n    }\n\n")
    eps = set(prog["entry_points"])
    o.append("    fn call_ep(kind: &str, deps: &mut Deps, env: Env, info: MessageInfo, doc: &[u8]) -> CallOut {\n        match kind {\n")
    for k in ("instantiate", "exec", "query", "sudo", "migrate"):
        if EP_FN[k] not in eps:
            continue
        ty = wrap_path(prog, k)
        if k == "query":
            call = "outcome_bin(entry_points::query(deps.as_ref(), env, m).map_err(|e| proj_err(&e)))"
        elif k in ("exec", "instantiate"):
            call = "outcome_resp(entry_points::%s(deps.as_mut(), env, info, m).map_err(|e| proj_err(&e)))" % EP_FN[k]
        else:
            call = "outcome_resp(entry_points::%s(deps.as_mut(), env, m).map_err(|e| proj_err(&e)))" % EP_FN[k]
        o.append("            \"%s\" => match from_json::<%s>(doc) {\n                Err(e) => CallOut::DecodeErr(e.to_string()),\n"
                 "                Ok(m) => { let (v, b) = %s; CallOut::Done(v, b) }\n            },\n" % (k, ty, call))
    o.append("            _ => CallOut::Absent,\n        }\n    }\n\n")
    o.append("    fn call_mt(kind: &str, deps: &mut Deps, env: Env, info: MessageInfo, doc: &[u8]) -> CallOut {\n"
             "        type MtC = dyn sylvia::cw_multi_test::Contract<sylvia::cw_std::Empty, sylvia::cw_std::Empty>;\n        let c = %s;\n        match kind {\n" % (
                 "Ctr::<GenVal> { tag: 9, _p: std::marker::PhantomData }" if generic else "Ctr { tag: 9 }"))
    for k in ("instantiate", "exec", "query", "sudo", "migrate"):
        if k == "query":
            call = "outcome_bin(MtC::query(&c, deps.as_ref(), env, doc.to_vec()).map_err(|e| proj_anyhow(&e)))"
        elif k in ("exec", "instantiate"):
            call = "outcome_resp(MtC::%s(&c, deps.as_mut(), env, info, doc.to_vec()).map_err(|e| proj_anyhow(&e)))" % EP_FN[k]
        else:
            call = "outcome_resp(MtC::%s(&c, deps.as_mut(), env, doc.to_vec()).map_err(|e| proj_anyhow(&e)))" % EP_FN[k]
        o.append("            \"%s\" => { let (v, b) = %s; CallOut::Done(v, b) }\n" % (k, call))
    o.append("            _ => CallOut::Absent,\n        }\n    }\n\n")
    o.append("    fn encode_events() {\n" + encode_src(prog) + "    }\n\n")
    o.append(remote_src(prog))
    o.append(schema_src(prog))
    if prog.get("builder"):
        o.append(builder_src(prog))
    with_mt = bool(prog.get("mt"))      # programs whose multitest proxies are exercised (C12): the specification's choice
    if with_mt:
        o.append(mt_src(prog))
    parts = ", ".join('"%s"' % p["id"] for p in prog["parts"])
    o.append("    pub fn vt() -> ProgVt {\n        ProgVt { id: \"%s\", lists, decode_wrapper, decode_part, decode_struct, call_ep, call_mt, encode_events, schema_events: Some(schema_events), parts: &[%s], remote_events: %s, mt_histories: %s, builder_events: %s }\n    }\n" % (pid, parts, "None" if (prog.get("overrides") or prog.get("family") in ("alias", "aliasshare")) else "Some(remote_events)", "Some(mt_histories)" if with_mt else "None", "Some(builder_events)" if prog.get("builder") else "None"))
    o.append("}\n")
    return "".join(o)


CARGO_SHARD = """[package]
name = "%s"
version = "0.0.0"
edition = "2021"
publish = false

[dependencies]
verif-rrt = { path = "%s/rrt" }
%s = { package = "sylvia", path = "%s/sylvia", features = ["mt", "stargate", "iterator", "cosmwasm_1_1", "cosmwasm_1_2", "cosmwasm_1_3", "cosmwasm_1_4"] }
"""


def cargo_shard(name, harness_dir, repo, krate="sylvia"):
    return CARGO_SHARD % (name, harness_dir, krate, repo)


def rename_crate(src, krate):
    """The same program text with the framework imported under another name (C19)."""
    return src if krate == "sylvia" else src.replace("sylvia::", krate + "::")


def generate(progs, out_dir, harness_dir, repo, shards, prefix, write_if_changed, krate="sylvia"):
    """Write the workspace; returns (list of (binary name, [program ids]), runtime program rows)."""
    rows = []
    for p in progs:
        q = dict(p)
        q["stim"] = [dict(s, doc=render_doc(p, s)) for s in p["stim"]]
        cands = sorted({m["wire"] for part in p["parts"] for m in part["methods"] if m["kind"] in ENUM_KINDS} | {"zz_unknown"})
        q["candidates"] = cands
        rows.append(q)
    # programs that are expected not to build get shards of their own, so that their failure does not disturb the rest
    special = [p for p in progs if p.get("family") == "collide"]
    normal = [p for p in progs if p.get("family") != "collide"]
    shards = max(1, min(shards, len(normal)))
    groups = [[] for _ in range(shards)]
    for i, p in enumerate(sorted(normal, key=lambda x: -sum(len(pt["methods"]) for pt in x["parts"]))):
        groups[i % shards].append(p)
    groups += [[p] for p in special]
    bins = []
    members = []
    spans = {}
    generate.spans = spans
    for gi, g in enumerate(groups):
        name = "%s%d" % (prefix, gi)
        members.append(name)
        d = os.path.join(out_dir, name)
        write_if_changed(os.path.join(d, "Cargo.toml"), cargo_shard(name, harness_dir, repo, krate))
        src = ["// generated by harness/gen/routing.py from TLC's corpus -- do not edit\n"]
        for p in g:
            start = sum(x.count("\n") for x in src) + 1
            src.append(rename_crate(program_src(p), krate))
            spans[(name, p["id"])] = (start, sum(x.count("\n") for x in src))
        src.append("\nfn main() {\n    verif_rrt::main_with(&[%s]);\n}\n" % ", ".join("%s::vt()" % p["id"].lower() for p in g if not p.get("define_only")))
        write_if_changed(os.path.join(d, "src", "main.rs"), "".join(src))
        bins.append((name, [p["id"] for p in g]))
    ws = "[workspace]\nmembers = [%s]\nresolver = \"2\"\n\n[profile.dev]\ndebug = false\nincremental = false\n" % ", ".join('"%s"' % m for m in members)
    write_if_changed(os.path.join(out_dir, "Cargo.toml"), ws)
    write_if_changed(os.path.join(out_dir, ".cargo", "config.toml"), "[net]\noffline = true\n")
    # stale shard directories from an earlier, larger run would break the workspace globbing: none is globbed, ok
    return bins, rows
